/-
  Helper lemmas for C08 (part c, Feature level): `int(str(i)) == i` on the model's `parseInt?` /
  `intToStr`, and character facts about decimal renderings.
-/
import GffModel.Feature
import GffProofs.Lemmas.C08bAux
import GffProofs.Lemmas.C07LineStr

namespace GffProofs.C08cAux
open GffModel GffModel.Str GffProofs.C08bAux

/-! ### digits -/

theorem digit_bounds (c : Char) (h : c.isDigit = true) : 48 ≤ c.toNat ∧ c.toNat ≤ 57 := by
  simp only [Char.isDigit, Bool.and_eq_true, decide_eq_true_eq, ge_iff_le] at h
  have h1 : ('0' : Char).val ≤ c.val := h.1
  have h2 : c.val ≤ ('9' : Char).val := h.2
  rw [UInt32.le_iff_toNat_le] at h1 h2
  exact ⟨h1, h2⟩

theorem digit_not_space (c : Char) (h : c.isDigit = true) : isPySpace c = false := by
  have := digit_bounds c h
  simp only [isPySpace, Bool.or_eq_false_iff, Bool.and_eq_false_iff, decide_eq_false_iff_not,
    beq_eq_false_iff_ne]
  omega

theorem digitVal_of_isDigit (c : Char) (h : c.isDigit = true) :
    digitVal? c = some (c.toNat - '0'.toNat) := by
  have hb := digit_bounds c h
  unfold digitVal?
  have h1 : '0' ≤ c := by
    show ('0' : Char).val ≤ c.val
    rw [UInt32.le_iff_toNat_le]; exact hb.1
  have h2 : c ≤ '9' := by
    show c.val ≤ ('9' : Char).val
    rw [UInt32.le_iff_toNat_le]; exact hb.2
  simp [h1, h2]

theorem foldl_digits (f : Option Nat → Char → Option Nat)
    (hf : ∀ a c, f (some a) c = match digitVal? c with | some d => some (a * 10 + d) | none => none)
    (l : Str) (a : Nat) (h : ∀ c ∈ l, c.isDigit = true) :
    l.foldl f (some a) = some (Nat.ofDigitChars 10 l a) := by
  induction l generalizing a with
  | nil => rfl
  | cons c cs ih =>
    rw [List.foldl_cons, hf, digitVal_of_isDigit c (h c (by simp))]
    simp only
    rw [ih _ (fun x hx => h x (by simp [hx])), Nat.ofDigitChars_cons, Nat.mul_comm]

theorem parseNat_toDigits (n : Nat) : parseNat? (Nat.toDigits 10 n) = some n := by
  unfold parseNat?
  have hne : (Nat.toDigits 10 n).isEmpty = false := by
    cases h : Nat.toDigits 10 n with
    | nil => exact absurd h Nat.toDigits_ne_nil
    | cons _ _ => rfl
  rw [hne]
  simp only [Bool.false_eq_true, if_false]
  rw [foldl_digits _ (by intro a c; cases digitVal? c <;> rfl) _ 0 (fun c hc => Nat.isDigit_of_mem_toDigits (by decide) (by decide) hc),
    Nat.ofDigitChars_toDigits (by decide) (by decide)]

theorem parseNatUnderscore_toDigits (n : Nat) : parseNatUnderscore? (Nat.toDigits 10 n) = some n := by
  unfold parseNatUnderscore?
  rw [C07.splitChar_none '_' _ Nat.underscore_not_in_toDigits]
  have hne : (Nat.toDigits 10 n).isEmpty = false := by
    cases h : Nat.toDigits 10 n with
    | nil => exact absurd h Nat.toDigits_ne_nil
    | cons _ _ => rfl
  simp [hne, parseNat_toDigits]

theorem natRepr_toList (n : Nat) : (Nat.repr n).toList = Nat.toDigits 10 n := Nat.toList_repr

/-- characters of `str(i)`: a digit or the minus sign -/
theorem mem_intToStr (i : Int) (c : Char) (h : c ∈ intToStr i) : c.isDigit = true ∨ c = '-' := by
  unfold intToStr at h
  cases i with
  | ofNat m =>
    have : (toString (Int.ofNat m)).toList = Nat.toDigits 10 m := natRepr_toList m
    rw [this] at h
    exact Or.inl (Nat.isDigit_of_mem_toDigits (by decide) (by decide) h)
  | negSucc m =>
    have : (toString (Int.negSucc m)).toList = '-' :: Nat.toDigits 10 (m + 1) := by
      show ("-" ++ Nat.repr (m + 1)).toList = _
      rw [String.toList_append, natRepr_toList]; rfl
    rw [this] at h
    rcases List.mem_cons.mp h with h | h
    · exact Or.inr h
    · exact Or.inl (Nat.isDigit_of_mem_toDigits (by decide) (by decide) h)

theorem strip_digits (l : Str) (h : ∀ c ∈ l, c.isDigit = true ∨ c = '-') : strip l = l := by
  have hs : ∀ c ∈ l, isPySpace c = false := by
    intro c hc
    rcases h c hc with h | h
    · exact digit_not_space c h
    · subst h; decide
  apply strip_id
  · intro c hc; exact hs c (List.mem_of_mem_head? hc)
  · intro c hc; exact hs c (List.mem_of_mem_getLast? hc)

/-- **`int(str(i)) == i`** on the model -/
theorem parseInt_intToStr (i : Int) : parseInt? (intToStr i) = some i := by
  unfold parseInt?
  rw [strip_digits _ (mem_intToStr i)]
  unfold intToStr
  cases i with
  | ofNat m =>
    have : (toString (Int.ofNat m)).toList = Nat.toDigits 10 m := natRepr_toList m
    rw [this]
    have hd : ∀ c ∈ Nat.toDigits 10 m, c.isDigit = true :=
      fun c hc => Nat.isDigit_of_mem_toDigits (by decide) (by decide) hc
    cases hl : Nat.toDigits 10 m with
    | nil => exact absurd hl Nat.toDigits_ne_nil
    | cons x xs =>
      have hx : x.isDigit = true := hd x (by rw [hl]; simp)
      have h1 : x ≠ '-' := by intro e; subst e; revert hx; decide
      have h2 : x ≠ '+' := by intro e; subst e; revert hx; decide
      split
      · rename_i heq; injection heq with heq _; exact absurd heq h1
      · rename_i heq; injection heq with heq _; exact absurd heq h2
      · rw [← hl, parseNatUnderscore_toDigits]; rfl
  | negSucc m =>
    have : (toString (Int.negSucc m)).toList = '-' :: Nat.toDigits 10 (m + 1) := by
      show ("-" ++ Nat.repr (m + 1)).toList = _
      rw [String.toList_append, natRepr_toList]; rfl
    rw [this]
    simp only [parseNatUnderscore_toDigits]
    rfl

theorem intToStr_ne_nil (i : Int) : intToStr i ≠ [] := by
  intro h
  have := parseInt_intToStr i
  rw [h] at this
  have h2 : parseInt? [] = none := by decide
  rw [h2] at this; cases this

theorem intToStr_ne_dot (i : Int) : intToStr i ≠ ['.'] := by
  intro h
  have := mem_intToStr i '.' (by rw [h]; simp)
  revert this; decide

/-- no tab, CR or LF in `str(i)` -/
theorem intToStr_clean (i : Int) : ∀ c ∈ intToStr i, c ≠ '\t' ∧ c ≠ '\n' ∧ c ≠ '\r' := by
  intro c hc
  rcases mem_intToStr i c hc with h | h
  · refine ⟨?_, ?_, ?_⟩ <;> (intro e; subst e; revert h; decide)
  · subst h; decide

end GffProofs.C08cAux
