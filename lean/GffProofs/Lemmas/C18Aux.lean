/-
  Helper lemmas for C18 (exports: `len`, `sequence`, `bed12`, `to_bed12`).

  * small `Except`/`mapM` facts;
  * `complement` is an involution;
  * `kids` (children restricted to featuretypes, `ORDER BY start`) is a permutation of the matching
    rows and sorted by start (from C11's `order_perm` / `order_sorted`);
  * a *factoring* of `Export.bed12` into named stages (`spanCheck`, `body`, `withName`, `withThick`,
    `tail`, `finish`) with `bed12_unfold : bed12 … = <stages>` — the model itself is untouched; the
    do-block's join points make a direct `unfold` explode, the stages keep the proofs small;
  * an analysis of which exception each stage can raise.
-/
import GffModel.Export
import GffProofs.Props.C11
import GffProofs.Lemmas.ExceptList
import GffProofs.Lemmas.SplitJoin

namespace GffProofs.C18Aux
open GffModel GffModel.Export GffModel.Interface

/-! ### `Except` -/

section
variable {ε α β : Type}

theorem bind_eq_error {x : Except ε α} {k : α → Except ε β} {e : ε} (h : (x >>= k) = .error e) :
    x = .error e ∨ ∃ a, x = .ok a ∧ k a = .error e := by
  cases x with
  | error e' => left; simpa [bind, Except.bind] using h
  | ok a => right; exact ⟨a, rfl, h⟩

theorem mapM_eq_ok_map (f : α → Except ε β) (g : α → β) (l : List α) (h : ∀ x ∈ l, f x = .ok (g x)) :
    l.mapM f = .ok (l.map g) := by
  induction l with
  | nil => rfl
  | cons x xs ih =>
    have hx := h x (by simp)
    have ih' := ih (fun y hy => h y (by simp [hy]))
    simp [List.mapM_cons, hx, ih', bind, Except.bind, pure, Except.pure]

theorem mapM_error_mem (f : α → Except ε β) (l : List α) (e : ε) (h : l.mapM f = .error e) :
    ∃ x ∈ l, f x = .error e := by
  induction l with
  | nil => simp [pure, Except.pure] at h
  | cons x xs ih =>
    rw [List.mapM_cons] at h
    rcases bind_eq_error h with h1 | ⟨y, _, h2⟩
    · exact ⟨x, by simp, h1⟩
    · rcases bind_eq_error h2 with h3 | ⟨ys, _, h4⟩
      · obtain ⟨z, hz, hz'⟩ := ih h3
        exact ⟨z, by simp [hz], hz'⟩
      · simp [pure, Except.pure] at h4

end

/-! ### complement -/

theorem complement_complement (c : Char) : complement (complement c) = c := by
  by_cases h1 : c = 'A'; · subst h1; rfl
  by_cases h2 : c = 'C'; · subst h2; rfl
  by_cases h3 : c = 'G'; · subst h3; rfl
  by_cases h4 : c = 'T'; · subst h4; rfl
  by_cases h5 : c = 'N'; · subst h5; rfl
  by_cases h6 : c = 'a'; · subst h6; rfl
  by_cases h7 : c = 'c'; · subst h7; rfl
  by_cases h8 : c = 'g'; · subst h8; rfl
  by_cases h9 : c = 't'; · subst h9; rfl
  by_cases h10 : c = 'n'; · subst h10; rfl
  by_cases k0 : c = 'R'; · subst k0; rfl
  by_cases k1 : c = 'Y'; · subst k1; rfl
  by_cases k2 : c = 'K'; · subst k2; rfl
  by_cases k3 : c = 'M'; · subst k3; rfl
  by_cases k4 : c = 'B'; · subst k4; rfl
  by_cases k5 : c = 'V'; · subst k5; rfl
  by_cases k6 : c = 'D'; · subst k6; rfl
  by_cases k7 : c = 'H'; · subst k7; rfl
  by_cases k8 : c = 'r'; · subst k8; rfl
  by_cases k9 : c = 'y'; · subst k9; rfl
  by_cases k10 : c = 'k'; · subst k10; rfl
  by_cases k11 : c = 'm'; · subst k11; rfl
  by_cases k12 : c = 'b'; · subst k12; rfl
  by_cases k13 : c = 'v'; · subst k13; rfl
  by_cases k14 : c = 'd'; · subst k14; rfl
  by_cases k15 : c = 'h'; · subst k15; rfl
  have : complement c = c := by
    unfold complement
    split <;> first | contradiction | rfl
  rw [this, this]

theorem map_complement_involutive (l : Str) : (l.map complement).map complement = l := by
  induction l with
  | nil => rfl
  | cons c cs ih => simp only [List.map_cons, complement_complement, ih]

/-! ### `kids` -/

/-- the WHERE clause of `kids`: a child (any level) of `id` whose featuretype is admitted -/
def isKid (s : Session) (id : Str) (fts : List Str) (r : Row) : Bool :=
  (related s.db true id none).contains r.id && (fts.isEmpty || fts.contains r.ftype)

theorem rowMatches_ft (fts : List Str) (r : Row) :
    rowMatches { featuretype := fts, orderBy := [.start] } r = (fts.isEmpty || fts.contains r.ftype) := by
  simp [rowMatches]

theorem kids_perm (s : Session) (id : Str) (fts : List Str) :
    (kids s id fts).Perm (s.db.features.filter (isKid s id fts)) := by
  unfold kids runRelation
  have h := C11.filter_indexed s.db.features (isKid s id fts)
  rw [← h]
  refine (C11.order_perm _ _).map _ |>.trans ?_
  apply List.Perm.of_eq
  congr 1
  apply List.filter_congr
  intro p _
  simp [isKid, rowMatches_ft]

/-- sqlite's `ORDER BY start` on the start column: NULL first, then ascending integers -/
def startLe (a b : Row) : Prop := (optInt a.start).le (optInt b.start) = true

instance (a b : Row) : Decidable (startLe a b) := by unfold startLe; infer_instance

theorem kids_sorted (s : Session) (id : Str) (fts : List Str) : (kids s id fts).Pairwise startLe := by
  unfold kids runRelation
  have h := C11.order_sorted { featuretype := fts, orderBy := [.start] }
    ((indexed s.db.features).filter (fun p =>
      (related s.db true id none).contains p.2.id &&
        rowMatches { featuretype := fts, orderBy := [.start] } p.2)) (by simp)
  refine List.Pairwise.map _ ?_ h
  intro a b hab
  simpa [C11.rowLe_single, sortVal, startLe] using hab

/-- `kids` is determined by the two facts above when the start keys are pairwise different: any list that
is a start-sorted arrangement of the matching rows *is* `kids` (used to evaluate `kids` on concrete
sessions — `mergeSort` is defined by well-founded recursion and does not reduce by `decide`) -/
theorem kids_eq_of_sorted (s : Session) (id : Str) (fts : List Str) (l : List Row)
    (hperm : l.Perm (s.db.features.filter (isKid s id fts))) (hs : l.Pairwise startLe)
    (hanti : ∀ a ∈ l, ∀ b ∈ l, startLe a b → startLe b a → a = b) : kids s id fts = l := by
  have hp : (kids s id fts).Perm l := (kids_perm s id fts).trans hperm.symm
  exact List.Perm.eq_of_pairwise (le := startLe)
    (fun a b ha hb => hanti a (hp.subset ha) b hb) (kids_sorted s id fts) hs hp

/-! ### factoring of `bed12` -/

def optStr (o : Option Int) : Str := match o with | some i => Str.intToStr i | none => "None".toList

/-- `(color or "0,0,0").replace(" ", "").strip()` -/
def colorOf (color : Option Str) : Str := Str.strip ((color.getD "0,0,0".toList).filter (· ≠ ' '))

def relStart (chromStart : Int) (r : Row) : Py Int := do pure ((← getInt r.start) - 1 - chromStart)

/-- the final `"\t".join(...)` once `thickStart`/`thickEnd` are (or are not) bound -/
def finish (f : Row) (chromStart : Int) (name color : Str) (n : Nat) (sizes starts : List Int)
    (tp : Option (Option Int × Option Int)) : Py Str :=
  match tp with
  | none => throw .unbound
  | some (ts, te) =>
    pure (tabJoin [f.seqid, Str.intToStr chromStart, optStr f.stop, name,
      (if f.score = ['.'] then ['0'] else f.score), f.strand, optStr ts, optStr te,
      color, Str.natToStr n, commaJoin (sizes.map Str.intToStr), commaJoin (starts.map Str.intToStr)])

/-- `blockStarts[-1]`, `blockSizes[-1]`, the assertion, then `finish` (verbatim shape of the model) -/
def tail (f : Row) (chromStart : Int) (name color : Str) (n : Nat) (sizes starts : List Int)
    (thickPair : Option (Option Int × Option Int)) : Py Str := do
  let lastStart ← match starts.getLast? with | some x => pure x | none => throw PyErr.index
  let lastSize ← match sizes.getLast? with | some x => pure x | none => throw PyErr.index
  if some (chromStart + lastStart + lastSize) ≠ f.stop then throw .assertion
  finish f chromStart name color n sizes starts thickPair

/-- the thick/thin stage in continuation-passing form -/
def withThick (s : Session) (id : Str) (thick thin : List Str) (f : Row)
    (k : Option (Option Int × Option Int) → Py Str) : Py Str :=
  if !thick.isEmpty then
    match (kids s id thick).head?, (kids s id thick).getLast? with
    | some a, some b => getInt a.start >>= fun x => k (some (some (x - 1), b.stop))
    | _, _ => k (some (f.start, f.stop))
  else if !thin.isEmpty then
    match (kids s id thin).head?, (kids s id thin).getLast? with
    | some a, some b => getInt b.start >>= fun x => k (some (a.stop, some (x - 1)))
    | _, _ => k (some (f.start, f.stop))
  else k none

/-- the name stage in continuation-passing form -/
def withName (f : Row) (nameField : Str) (k : Str → Py Str) : Py Str :=
  match f.attrs.get? nameField with
  | some (v :: _) => k v
  | some [] => .error .index
  | none => k ['.']

/-- everything after the two span checks -/
def body (s : Session) (id : Str) (thick thin : List Str) (nameField : Str) (color : Option Str)
    (f : Row) (exons : List Row) : Py Str :=
  getInt f.start >>= fun fstart =>
  withName f nameField fun name =>
  exons.mapM rowLen >>= fun sizes =>
  exons.mapM (relStart (fstart - 1)) >>= fun starts =>
  withThick s id thick thin f fun tp =>
  tail f (fstart - 1) name (colorOf color) exons.length sizes starts tp

/-- first/last block and the two `ValueError` span checks (verbatim shape of the model) -/
def spanCheck (s : Session) (id : Str) (thick thin : List Str) (nameField : Str) (color : Option Str)
    (f : Row) (exons : List Row) : Py Str := do
  let firstRow ← match exons.head? with | some r => pure r | none => throw PyErr.index
  let lastRow ← match exons.getLast? with | some r => pure r | none => throw PyErr.index
  if firstRow.start ≠ f.start then throw .value
  if lastRow.stop ≠ f.stop then throw .value
  body s id thick thin nameField color f exons

/-- `bed12` is the composition of the stages (definitional) -/
theorem bed12_stages (s : Session) (id : Str) (block thick thin : List Str) (nameField : Str) (color : Option Str) :
    bed12 s id block thick thin nameField color = (do
      if !thick.isEmpty && !thin.isEmpty then throw .value
      let f ← match s.db.getRow? id with | some r => pure r | none => throw PyErr.featureNotFound
      spanCheck s id thick thin nameField color f
        (if (kids s id block).isEmpty then [f] else kids s id block)) := rfl

theorem bed12_both (s : Session) (id : Str) (block thick thin : List Str) (nameField : Str) (color : Option Str)
    (h : (!thick.isEmpty && !thin.isEmpty) = true) :
    bed12 s id block thick thin nameField color = .error .value := by
  rw [bed12_stages]; simp only [h, if_true]; rfl

theorem bed12_absent (s : Session) (id : Str) (block thick thin : List Str) (nameField : Str) (color : Option Str)
    (h : (!thick.isEmpty && !thin.isEmpty) = false) (hf : s.db.getRow? id = none) :
    bed12 s id block thick thin nameField color = .error .featureNotFound := by
  rw [bed12_stages]; simp only [h, hf]; rfl

theorem bed12_present (s : Session) (id : Str) (block thick thin : List Str) (nameField : Str) (color : Option Str)
    (f : Row) (h : (!thick.isEmpty && !thin.isEmpty) = false) (hf : s.db.getRow? id = some f) :
    bed12 s id block thick thin nameField color =
      spanCheck s id thick thin nameField color f (if (kids s id block).isEmpty then [f] else kids s id block) := by
  rw [bed12_stages]; simp only [h, hf]; rfl

theorem spanCheck_eq (s : Session) (id : Str) (thick thin : List Str) (nameField : Str) (color : Option Str)
    (f a b : Row) (exons : List Row) (ha : exons.head? = some a) (hb : exons.getLast? = some b) :
    spanCheck s id thick thin nameField color f exons =
      if a.start ≠ f.start then .error .value
      else if b.stop ≠ f.stop then .error .value
      else body s id thick thin nameField color f exons := by
  unfold spanCheck
  simp only [ha, hb, pure_bind]
  by_cases h1 : a.start ≠ f.start
  · rw [if_pos h1, if_pos h1]; rfl
  · rw [if_neg h1, if_neg h1]
    by_cases h2 : b.stop ≠ f.stop
    · rw [if_pos h2, if_pos h2]; rfl
    · rw [if_neg h2, if_neg h2]

theorem tail_eq (f : Row) (chromStart : Int) (name color : Str) (n : Nat) (sizes starts : List Int)
    (tp : Option (Option Int × Option Int)) (ls lz : Int)
    (h1 : starts.getLast? = some ls) (h2 : sizes.getLast? = some lz) :
    tail f chromStart name color n sizes starts tp =
      if some (chromStart + ls + lz) ≠ f.stop then .error .assertion
      else finish f chromStart name color n sizes starts tp := by
  unfold tail
  simp only [h1, h2, pure_bind]
  by_cases h : some (chromStart + ls + lz) ≠ f.stop
  · rw [if_pos h, if_pos h]; rfl
  · rw [if_neg h, if_neg h]

/-! ### which exceptions the stages can raise -/

theorem getInt_error {o : Option Int} {e : PyErr} (h : getInt o = .error e) : e = .type := by
  cases o <;> simp [getInt] at h; exact h.symm

theorem rowLen_error {r : Row} {e : PyErr} (h : rowLen r = .error e) : e = .type := by
  unfold rowLen at h
  split at h
  · cases h
  · cases h; rfl

theorem relStart_error {c : Int} {r : Row} {e : PyErr} (h : relStart c r = .error e) : e = .type := by
  unfold relStart at h
  rcases bind_eq_error h with h1 | ⟨_, _, h2⟩
  · exact getInt_error h1
  · cases h2

/-- the exceptions other than `ValueError` / `FeatureNotFoundError` that `bed12` can raise -/
def Late (e : PyErr) : Prop := e = .type ∨ e = .index ∨ e = .assertion ∨ e = .unbound

theorem finish_error {f : Row} {c : Int} {name color : Str} {n : Nat} {sizes starts : List Int}
    {tp : Option (Option Int × Option Int)} {e : PyErr}
    (h : finish f c name color n sizes starts tp = .error e) : e = .unbound := by
  unfold finish at h
  split at h
  · cases h; rfl
  · cases h

theorem tail_error {f : Row} {c : Int} {name color : Str} {n : Nat} {sizes starts : List Int}
    {tp : Option (Option Int × Option Int)} {e : PyErr}
    (h : tail f c name color n sizes starts tp = .error e) : Late e := by
  cases h1 : starts.getLast? with
  | none => unfold tail at h; simp only [h1] at h; cases h; simp [Late]
  | some ls =>
    cases h2 : sizes.getLast? with
    | none => unfold tail at h; simp only [h1, h2] at h; cases h; simp [Late]
    | some lz =>
      rw [tail_eq f c name color n sizes starts tp ls lz h1 h2] at h
      split at h
      · cases h; simp [Late]
      · have := finish_error h; simp [Late, this]

theorem withName_error {f : Row} {nf : Str} {k : Str → Py Str} {e : PyErr}
    (h : withName f nf k = .error e) : e = .index ∨ ∃ v, k v = .error e := by
  unfold withName at h
  split at h
  · exact Or.inr ⟨_, h⟩
  · cases h; exact Or.inl rfl
  · exact Or.inr ⟨_, h⟩

theorem withThick_error {s : Session} {id : Str} {thick thin : List Str} {f : Row}
    {k : Option (Option Int × Option Int) → Py Str} {e : PyErr}
    (h : withThick s id thick thin f k = .error e) : e = .type ∨ ∃ tp, k tp = .error e := by
  unfold withThick at h
  split at h
  · split at h
    · rcases bind_eq_error h with h1 | ⟨x, _, h2⟩
      · exact Or.inl (getInt_error h1)
      · exact Or.inr ⟨_, h2⟩
    · exact Or.inr ⟨_, h⟩
  · split at h
    · split at h
      · rcases bind_eq_error h with h1 | ⟨x, _, h2⟩
        · exact Or.inl (getInt_error h1)
        · exact Or.inr ⟨_, h2⟩
      · exact Or.inr ⟨_, h⟩
    · exact Or.inr ⟨_, h⟩

theorem body_error {s : Session} {id : Str} {thick thin : List Str} {nameField : Str} {color : Option Str}
    {f : Row} {exons : List Row} {e : PyErr}
    (h : body s id thick thin nameField color f exons = .error e) : Late e := by
  unfold body at h
  rcases bind_eq_error h with h1 | ⟨fs, _, h⟩
  · simp [Late, getInt_error h1]
  rcases withName_error h with h1 | ⟨name, h⟩
  · simp [Late, h1]
  rcases bind_eq_error h with h1 | ⟨sizes, _, h⟩
  · obtain ⟨r, _, hr⟩ := mapM_error_mem _ _ _ h1
    simp [Late, rowLen_error hr]
  rcases bind_eq_error h with h1 | ⟨starts, _, h⟩
  · obtain ⟨r, _, hr⟩ := mapM_error_mem _ _ _ h1
    simp [Late, relStart_error hr]
  rcases withThick_error h with h1 | ⟨tp, h⟩
  · simp [Late, h1]
  exact tail_error h

/-! ### the characters of the numeric columns -/

theorem natToStr_digits (n : Nat) : ∀ c ∈ Str.natToStr n, c.isDigit = true := by
  intro c hc
  unfold Str.natToStr at hc
  have : toString n = n.repr := rfl
  rw [this, Nat.toList_repr] at hc
  exact Nat.isDigit_of_mem_toDigits (by decide) (by decide) hc

theorem intToStr_chars (i : Int) : ∀ c ∈ Str.intToStr i, c.isDigit = true ∨ c = '-' := by
  intro c hc
  unfold Str.intToStr at hc
  rw [Int.toString_eq_repr, Int.repr_eq_if] at hc
  split at hc
  · left
    rw [Nat.toList_repr] at hc
    exact Nat.isDigit_of_mem_toDigits (by decide) (by decide) hc
  · simp only [String.toList_append, List.mem_append, Nat.toList_repr] at hc
    rcases hc with hc | hc
    · right; simpa using hc
    · left; exact Nat.isDigit_of_mem_toDigits (by decide) (by decide) hc

theorem mem_join {c : Char} {sep : Str} {l : List Str} (h : c ∈ Str.join sep l) : c ∈ sep ∨ ∃ p ∈ l, c ∈ p := by
  induction l with
  | nil => simp [Str.join] at h
  | cons p rest ih =>
    cases rest with
    | nil => exact Or.inr ⟨p, by simp, by simpa [Str.join] using h⟩
    | cons q rest =>
      simp only [Str.join, List.mem_append] at h
      rcases h with (h | h) | h
      · exact Or.inr ⟨p, by simp, h⟩
      · exact Or.inl h
      · rcases ih h with h | ⟨x, hx, hc⟩
        · exact Or.inl h
        · exact Or.inr ⟨x, by simp [hx], hc⟩

theorem tab_not_in_intToStr (i : Int) : '\t' ∉ Str.intToStr i := by
  intro h
  rcases intToStr_chars i _ h with h | h
  · revert h; decide
  · revert h; decide

theorem comma_not_in_intToStr (i : Int) : ',' ∉ Str.intToStr i := by
  intro h
  rcases intToStr_chars i _ h with h | h
  · revert h; decide
  · revert h; decide

theorem tab_not_in_natToStr (n : Nat) : '\t' ∉ Str.natToStr n := by
  intro h
  have := natToStr_digits n _ h
  revert this; decide

theorem tab_not_in_intList (l : List Int) : '\t' ∉ Str.join [','] (l.map Str.intToStr) := by
  intro h
  rcases mem_join h with h | ⟨p, hp, hc⟩
  · revert h; decide
  · obtain ⟨i, _, rfl⟩ := List.mem_map.1 hp
    exact tab_not_in_intToStr i hc

end GffProofs.C18Aux
