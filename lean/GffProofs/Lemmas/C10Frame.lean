/-
  C10 helpers: before `_finalize`, no importer stage touches the `autoincrements`, `meta` or
  `directives` tables (whatever the configuration, strategy or input).
-/
import GffProofs.Lemmas.C10Counters

namespace GffProofs.C10
open GffModel GffModel.Create GffModel.Interface

/-- the three tables only `_finalize` writes -/
structure Frame (db db' : Db) : Prop where
  autoinc : db'.autoinc = db.autoinc
  metaRows : db'.metaRows = db.metaRows
  directives : db'.directives = db.directives

theorem Frame.refl (db : Db) : Frame db db := ⟨rfl, rfl, rfl⟩
theorem Frame.trans {a b c : Db} (h1 : Frame a b) (h2 : Frame b c) : Frame a c :=
  ⟨h2.autoinc.trans h1.autoinc, h2.metaRows.trans h1.metaRows, h2.directives.trans h1.directives⟩

theorem insert_frame (db db' : Db) (r : Row) (h : db.insert r = .ok db') : Frame db db' := by
  unfold Db.insert at h
  split at h
  · cases h
  · cases h; exact ⟨rfl, rfl, rfl⟩

theorem modifyRow_frame (db : Db) (id : Str) (g : Row → Row) : Frame db (db.modifyRow id g) := ⟨rfl, rfl, rfl⟩
theorem replaceRow_frame (db : Db) (id : Str) (r : Row) : Frame db (db.replaceRow id r) := ⟨rfl, rfl, rfl⟩

theorem insertRelIgnore_frame (db : Db) (r : Rel) : Frame db (db.insertRelIgnore r) := by
  unfold Db.insertRelIgnore; split
  · exact Frame.refl _
  · exact ⟨rfl, rfl, rfl⟩

theorem foldl_frame {α : Type} (step : Db → α → Db) (hstep : ∀ db a, Frame db (step db a)) (l : List α) (db : Db) :
    Frame db (l.foldl step db) := by
  induction l generalizing db with
  | nil => exact Frame.refl _
  | cons a l ih => simp only [List.foldl_cons]; exact (hstep db a).trans (ih _)

theorem foldl_frame_of {α : Type} (step : Db → α → Db) (hstep : ∀ db a, Frame db (step db a)) (l : List α)
    (db0 db : Db) (h0 : Frame db0 db) : Frame db0 (l.foldl step db) := h0.trans (foldl_frame step hstep l db)

theorem doMerge_frame (cfg : Cfg) (db db1 : Db) (auto auto1 : Dict Nat) (f : Feature) (id : Str) (st final : Strategy)
    (fixed : Option Feature) (h : doMerge cfg db auto f id st = .ok (fixed, final, db1, auto1)) :
    Frame db db1 := by
  unfold doMerge at h
  cases st with
  | error => cases h
  | warning => simp only [Except.ok.injEq, Prod.mk.injEq] at h; obtain ⟨_, _, rfl, _⟩ := h; exact Frame.refl _
  | replace => simp only [Except.ok.injEq, Prod.mk.injEq] at h; obtain ⟨_, _, rfl, _⟩ := h; exact Frame.refl _
  | createUnique => simp only [Except.ok.injEq, Prod.mk.injEq] at h; obtain ⟨_, _, rfl, _⟩ := h; exact Frame.refl _
  | merge =>
    simp only at h
    split at h
    · simp only [Except.ok.injEq, Prod.mk.injEq] at h; obtain ⟨_, _, rfl, _⟩ := h; exact ⟨rfl, rfl, rfl⟩
    · simp only [Except.ok.injEq, Prod.mk.injEq] at h; obtain ⟨_, _, rfl, _⟩ := h; exact Frame.refl _

theorem fileFeature_frame (cfg : Cfg) (db db' : Db) (auto auto' : Dict Nat) (f : Feature) (id : Str) (o : Option Str)
    (hf : fileFeature cfg db auto f id = .ok (db', auto', o)) : Frame db db' := by
  unfold fileFeature at hf
  simp only [bind, Except.bind, pure, Except.pure] at hf
  split at hf
  · cases hf
  · split at hf
    · rename_i db1 hins
      simp only [Except.ok.injEq, Prod.mk.injEq] at hf
      obtain ⟨rfl, _, _⟩ := hf
      exact insert_frame _ _ _ hins
    · split at hf
      · cases hf
      · rename_i res hres
        obtain ⟨fixed, final, db1, auto1⟩ := res
        have hm := doMerge_frame _ _ _ _ _ _ _ _ _ _ hres
        simp only at hf
        split at hf
        · simp only [Except.ok.injEq, Prod.mk.injEq] at hf
          obtain ⟨rfl, _, _⟩ := hf
          exact foldl_frame_of _ (fun db k => modifyRow_frame _ _ _) _ _ _ (hm.trans (modifyRow_frame _ _ _))
        · split at hf
          · cases hf
          · simp only [Except.ok.injEq, Prod.mk.injEq] at hf
            obtain ⟨rfl, _, _⟩ := hf; exact hm.trans (replaceRow_frame _ _ _)
        · split at hf
          · cases hf
          · split at hf
            · cases hf
            · rename_i db2 hins2
              simp only [Except.ok.injEq, Prod.mk.injEq] at hf
              obtain ⟨rfl, _, _⟩ := hf; exact hm.trans (insert_frame _ _ _ hins2)
        · simp only [Except.ok.injEq, Prod.mk.injEq] at hf
          obtain ⟨rfl, _, _⟩ := hf; exact hm

theorem gffStep_frame (cfg : Cfg) (st st' : Db × Dict Nat) (f : Feature)
    (hs : gffStep cfg st f = .ok st') : Frame st.1 st'.1 := by
  obtain ⟨db, auto⟩ := st
  unfold gffStep at hs
  simp only [bind, Except.bind, pure, Except.pure] at hs
  split at hs
  · cases hs
  · rename_i r1 h1
    obtain ⟨id, auto1⟩ := r1
    simp only at hs
    split at hs
    · cases hs
    · rename_i r2 h2
      obtain ⟨db2, auto2, filed⟩ := r2
      have hfr := fileFeature_frame _ _ _ _ _ _ _ _ h2
      simp only [Except.ok.injEq] at hs
      subst hs
      simp only
      split
      · exact hfr.trans (foldl_frame _ (fun db p => insertRelIgnore_frame _ _) _ _)
      · exact hfr

theorem gtfStep_frame (cfg : Cfg) (st st' : Db × Dict Nat) (f : Feature)
    (hs : gtfStep cfg st f = .ok st') : Frame st.1 st'.1 := by
  obtain ⟨db, auto⟩ := st
  unfold gtfStep at hs
  simp only [bind, Except.bind, pure, Except.pure] at hs
  split at hs
  · cases hs
  · rename_i r1 h1
    obtain ⟨id, auto1⟩ := r1
    simp only at hs
    split at hs
    · cases hs
    · rename_i r2 h2
      obtain ⟨db2, auto2, filed⟩ := r2
      have hfr := fileFeature_frame _ _ _ _ _ _ _ _ h2
      simp only [Except.ok.injEq] at hs
      subst hs
      simp only
      refine hfr.trans ?_
      repeat' split
      all_goals
        first
        | exact Frame.refl _
        | exact insertRelIgnore_frame _ _
        | exact (insertRelIgnore_frame _ _).trans (insertRelIgnore_frame _ _)
        | exact ((insertRelIgnore_frame _ _).trans (insertRelIgnore_frame _ _)).trans (insertRelIgnore_frame _ _)

theorem foldlM_frame {α : Type} (step : Db × Dict Nat → α → Py (Db × Dict Nat))
    (hstep : ∀ s a s', step s a = .ok s' → Frame s.1 s'.1) (l : List α) (s s' : Db × Dict Nat)
    (h : l.foldlM step s = .ok s') : Frame s.1 s'.1 :=
  C04.foldlM_inv step (fun t => Frame s.1 t.1)
    (fun t a t' ht hs => ht.trans (hstep t a t' hs)) l s s' (Frame.refl _) h

theorem populateGff_frame (cfg : Cfg) (db db' : Db) (auto auto' : Dict Nat) (fs : List Feature)
    (hp : populateGff cfg db auto fs = .ok (db', auto')) : Frame db db' := by
  unfold populateGff at hp
  split at hp
  · cases hp
  · exact foldlM_frame (gffStep cfg) (fun s a s' => gffStep_frame cfg s s' a) fs (db, auto) (db', auto') hp

theorem populateGtf_frame (cfg : Cfg) (db db' : Db) (auto auto' : Dict Nat) (fs : List Feature)
    (hp : populateGtf cfg db auto fs = .ok (db', auto')) : Frame db db' := by
  unfold populateGtf at hp
  split at hp
  · cases hp
  · exact foldlM_frame (gtfStep cfg) (fun s a s' => gtfStep_frame cfg s s' a) fs (db, auto) (db', auto') hp

theorem derivedStep_frame (cfg : Cfg) (st st' : Db × Dict Nat) (f : Feature)
    (hs : derivedStep cfg st f = .ok st') : Frame st.1 st'.1 := by
  obtain ⟨db, auto⟩ := st
  unfold derivedStep at hs
  simp only [bind, Except.bind, pure, Except.pure] at hs
  split at hs
  · cases hs
  · rename_i r1 h1
    obtain ⟨id, auto1⟩ := r1
    simp only at hs
    split at hs
    · cases hs
    · split at hs
      · rename_i db1 hins
        simp only [Except.ok.injEq] at hs
        subst hs; exact insert_frame _ _ _ hins
      · split at hs
        · cases hs
        · rename_i res hres
          obtain ⟨fixed, final, db1, auto2⟩ := res
          have e2 := doMerge_frame _ _ _ _ _ _ _ _ _ _ hres
          simp only at hs
          split at hs
          · simp only [Except.ok.injEq] at hs
            subst hs; exact e2.trans (modifyRow_frame _ _ _)
          · simp only [Except.ok.injEq] at hs
            subst hs; exact e2

theorem updateRelationsGtf_frame (cfg : Cfg) (db db' : Db) (auto auto' : Dict Nat)
    (h : updateRelationsGtf cfg db auto = .ok (db', auto')) : Frame db db' := by
  unfold updateRelationsGtf at h
  simp only [bind, Except.bind, pure, Except.pure] at h
  split at h
  · simp only [Except.ok.injEq, Prod.mk.injEq] at h
    rw [← h.1]; exact Frame.refl _
  · split at h
    · cases h
    · rename_i r hr
      obtain ⟨derived, lastGene⟩ := r
      exact foldlM_frame (derivedStep cfg) (fun s a s' => derivedStep_frame cfg s s' a) derived (db, auto) (db', auto') h

theorem updateRelationsGff_frame (db : Db) : Frame db (updateRelationsGff db) := by
  have e := (updateRelationsGff_relExt db).eq
  rw [e]; exact ⟨rfl, rfl, rfl⟩

theorem finalize_autoinc (db : Db) (d : Dialect) (dirs : List Str) (auto : Dict Nat) :
    (finalize db d dirs auto).autoinc = setAll auto db.autoinc := by
  unfold finalize setAll
  simp only

end GffProofs.C10
