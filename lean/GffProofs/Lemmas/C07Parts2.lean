/-
  Stages (iii) and (iv) on one rendered part.
-/
import GffProofs.Lemmas.C07Parts

namespace GffProofs.C07
open GffModel GffModel.Parser GffModel.Grammar GffModel.Quote

theorem kvSep_cases (s : LineSpec) : (s.style = .eq ∧ s.kvSep = ['=']) ∨ (s.style = .space ∧ s.kvSep = [' ']) := by
  unfold LineSpec.kvSep
  cases s.style <;> simp

theorem head_ne_of_not_mem (k : Str) (c : Char) (h : c ∉ k) : k.head? ≠ some c := by
  cases k with
  | nil => simp
  | cons a b => intro e; simp at e; subst e; simp at h

theorem getLast_ne_of_not_mem (k : Str) (c : Char) (h : c ∉ k) : k.getLast? ≠ some c := by
  intro e; exact h (List.mem_of_getLast? e)

theorem mkPart_head (s : LineSpec) (k t : Str) (hk : k ≠ []) : (mkPart s k t).head? = k.head? := by
  unfold mkPart; split
  · rfl
  · cases k with
    | nil => exact absurd rfl hk
    | cons a b => simp

theorem mkPart_last (s : LineSpec) (k t : Str) :
    (mkPart s k t).getLast? = if t = [] then k.getLast? else t.getLast? := by
  unfold mkPart; split
  · rfl
  · rename_i ht
    rw [List.getLast?_append]
    cases h : t.getLast? with
    | none => exact absurd (List.getLast?_eq_none_iff.mp h) ht
    | some z => simp

theorem partOk (s : LineSpec) (k t : Str) (K : KeyOk k) (T : TextOk s t) : PartOk (mkPart s k t) := by
  refine ⟨?_, ?_, ?_, ?_⟩
  · unfold mkPart; split
    · exact K.ne
    · simp [K.ne]
  · unfold mkPart; split
    · exact K.semi
    · simp only [List.mem_append, not_or]
      refine ⟨⟨K.semi, ?_⟩, T.semi⟩
      rcases kvSep_cases s with ⟨_, h⟩ | ⟨_, h⟩ <;> rw [h] <;> decide
  · rw [mkPart_head s k t K.ne]; exact head_ne_of_not_mem k ' ' K.sp
  · rw [mkPart_last]; split
    · exact getLast_ne_of_not_mem k ' ' K.sp
    · exact T.last

/-- the item a pair is recovered from -/
def gItem (kv : Str × Str) : List Str := if kv.2 = [] then [kv.1] else [kv.1, kv.2]

theorem keyVal_gItem (kv : Str × Str) (sep : Str) : keyVal sep (gItem kv) = .ok kv := by
  obtain ⟨k, t⟩ := kv
  unfold gItem; split
  · rename_i h; simp only [] at h; subst h; rfl
  · rfl

theorem keyVal_pair (kv : Str × Str) (sep : Str) : keyVal sep [kv.1, kv.2] = .ok kv := rfl

theorem part_eq_split (s : LineSpec) (k t : Str) (K : KeyOk k) (T : TextOk s t) (hs : s.style = .eq) :
    Str.split ['='] (mkPart s k t) = gItem (k, t) := by
  have hsep : s.kvSep = ['='] := by unfold LineSpec.kvSep; rw [hs]
  unfold mkPart gItem
  simp only []
  split
  · exact split1_none '=' k K.eqs
  · rw [hsep, List.append_assoc]
    simp only [List.cons_append, List.nil_append]
    rw [split1_cons '=' k t K.eqs, split1_none '=' t (T.eqs hs)]

theorem part_space_split (s : LineSpec) (k t : Str) (K : KeyOk k) (T : TextOk s t) (hs : s.style = .space) :
    headRest (Str.split [' '] (Str.strip (match mkPart s k t with | ';' :: r => r | _ => mkPart s k t)))
      = .ok [k, t] := by
  have hsep : s.kvSep = [' '] := by unfold LineSpec.kvSep; rw [hs]
  have P := partOk s k t K T
  have hm : (match mkPart s k t with | ';' :: r => r | _ => mkPart s k t) = mkPart s k t := by
    split
    · rename_i r h; exact absurd (by rw [h]; simp) P.2.1
    · rfl
  rw [hm]
  have hstrip : Str.strip (mkPart s k t) = mkPart s k t := by
    apply strip_id
    · rw [mkPart_head s k t K.ne]; exact K.head
    · rw [mkPart_last]; split
      · exact K.last
      · exact T.lastsp hs
  rw [hstrip]
  unfold mkPart
  split
  · rename_i ht; subst ht
    rw [split1_none ' ' k K.sp]; rfl
  · rw [hsep, List.append_assoc]
    simp only [List.cons_append, List.nil_append]
    rw [split1_cons ' ' k t K.sp]
    simp only [headRest]
    rw [join_split1]

/-! ### `gff3_kw_pat` on the first part -/

theorem drop_takeWhile {α} (f : α → Bool) (p : List α) : p.drop (p.takeWhile f).length = p.dropWhile f := by
  induction p with
  | nil => rfl
  | cons x p ih =>
    simp only [List.takeWhile, List.dropWhile]
    cases f x <;> simp [ih]

theorem matchesKw_eq (k t : Str) (hk : k ≠ []) (hw : k.all isWordChar = true) :
    matchesKw (k ++ '=' :: t) = true := by
  have htw : (k ++ '=' :: t).takeWhile isWordChar = k := by
    clear hk
    induction k with
    | nil =>
      have : isWordChar '=' = false := by decide
      simp [this]
    | cons x k ih =>
      simp only [List.all_cons, Bool.and_eq_true] at hw
      simp [hw.1, ih hw.2]
  unfold matchesKw
  simp only [htw]
  have : k.isEmpty = false := by simpa using hk
  simp [this]

theorem dropWhile_word_head (k rest : Str) (hk : '=' ∉ k)
    (hr : rest = [] ∨ ∃ r, rest = ' ' :: r) :
    ((k ++ rest).dropWhile isWordChar).head? ≠ some '=' := by
  induction k with
  | nil =>
    rcases hr with rfl | ⟨r, rfl⟩
    · simp
    · have : isWordChar ' ' = false := by decide
      simp [this]
  | cons x k ih =>
    simp only [List.cons_append, List.dropWhile]
    cases hx : isWordChar x with
    | true => exact ih (fun h => hk (by simp [h]))
    | false =>
      simp only [List.head?_cons]
      intro e; simp at e; subst e; simp at hk

theorem matchesKw_space (s : LineSpec) (k t : Str) (K : KeyOk k) (hs : s.style = .space) :
    matchesKw (mkPart s k t) = false := by
  have hsep : s.kvSep = [' '] := by unfold LineSpec.kvSep; rw [hs]
  unfold matchesKw
  simp only [drop_takeWhile]
  have : ((mkPart s k t).dropWhile isWordChar).head? ≠ some '=' := by
    unfold mkPart; split
    · have := dropWhile_word_head k [] K.eqs (Or.inl rfl)
      simpa using this
    · rw [hsep, List.append_assoc]
      exact dropWhile_word_head k _ K.eqs (Or.inr ⟨t, rfl⟩)
  simp [this]

end GffProofs.C07
