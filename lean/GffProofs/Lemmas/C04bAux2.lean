/-
  Lemmas for C04b (continued): the two parsers cut at their accumulation loop; what a key occurring twice
  among the parts ends up with; decoding; `feature_from_line` hands the parsed mapping to the Feature.
-/
import GffProofs.Lemmas.C04bAux

namespace GffProofs.C04b
open GffModel GffModel.Parser GffModel.Str

/-! ### the parsers cut at the loop -/

/-- the `[key, value, …]` items the provided-dialect path hands to its loop: trailing `;` stripped, split at
the field separator, each part split at the key/value separator (`headRest` for the non-gff3 formats) -/
def provItems (s : Str) (d : Dialect) : Py (List (List Str)) := do
  let s := if d.trailingSemicolon then Str.rstripChars [';'] s else s
  let parts ← pySplit d.fieldSep s
  let kvsep := d.kvSep
  if d.leadingSemicolon then
    let _ ← parts.mapM (fun p =>
      let p := match p with | ';' :: t => t | _ => p
      pySplit kvsep (Str.strip p))
  if d.fmt = gff3 then parts.mapM (pySplit kvsep)
  else do
    let pieces ← (parts.zipIdx).mapM (fun (p, i) =>
      let p := if i == 0 && d.leadingSemicolon then p.drop 1 else p
      pySplit kvsep (Str.strip p))
    pieces.mapM headRest

theorem bind_bind_of {ε α β γ : Type} {x : Except ε α} {f : α → Except ε γ} {g : α → Except ε β}
    {h : β → Except ε γ} (H : ∀ a, f a = g a >>= h) : x >>= f = (x >>= g) >>= h := by
  cases x with
  | error e => rfl
  | ok a => exact H a

theorem splitProvided_eq (s : Str) (d : Dialect) (ie : Bool) :
    splitProvided s d ie = (do
      let items ← provItems s d
      let quals ← items.foldlM (C08.foldStep d) []
      pure (unquoteQuals quals d ie, d)) := by
  unfold splitProvided provItems
  conv => zeta
  refine bind_bind_of (fun parts => ?_)
  generalize d.leadingSemicolon = L
  have tail : (if d.fmt = gff3 then do
          let keyVals ← parts.mapM (pySplit d.kvSep)
          let quals ← keyVals.foldlM (C08.foldStep d) []
          pure (unquoteQuals quals d ie, d)
        else do
          let pieces ← (parts.zipIdx).mapM (fun (p, i) =>
            let p := if i == 0 && L then p.drop 1 else p
            pySplit d.kvSep (Str.strip p))
          let keyVals ← pieces.mapM headRest
          let quals ← keyVals.foldlM (C08.foldStep d) []
          pure (unquoteQuals quals d ie, d)) =
      ((if d.fmt = gff3 then parts.mapM (pySplit d.kvSep)
        else do
          let pieces ← (parts.zipIdx).mapM (fun (p, i) =>
            let p := if i == 0 && L then p.drop 1 else p
            pySplit d.kvSep (Str.strip p))
          pieces.mapM headRest) >>= fun items => do
        let quals ← items.foldlM (C08.foldStep d) []
        pure (unquoteQuals quals d ie, d)) := by
    by_cases hf : d.fmt = gff3
    · simp only [hf, if_true]
    · simp only [hf, if_false]
      exact bind_bind_of (fun pieces => rfl)
  cases L with
  | false => exact tail
  | true =>
    simp only [↓reduceIte]
    exact bind_bind_of (fun _ => tail)

/-- the items (and the dialect so far) the inferring path hands to its loop -/
def inferItems (parts : List Str) (d : Dialect) : Py (List (List Str) × Dialect) := do
  let p0 ← match parts with | [] => Except.error PyErr.index | p :: _ => pure p
  if matchesKw p0 then
    pure (parts.map (Str.split ['=']), C07.eqD d)
  else do
    let kv ← (C07.spacePieces parts).mapM headRest
    pure (kv, C07.spaceD parts d)

theorem splitInfer_eq (s : Str) (ie : Bool) :
    splitInfer s ie = (do
      let (items, d) ← inferItems (C07.frontStage s).1 (C07.frontStage s).2
      let (quals, d) ← items.foldlM C07.stepO (([] : Attrs), d)
      pure (C07.finishStage quals d ie)) := by
  rw [C07.splitInfer_eq]
  generalize C07.frontStage s = fs
  obtain ⟨parts, d⟩ := fs
  unfold C07.tailStage inferItems
  cases parts with
  | nil => rfl
  | cons p tl =>
    simp only [pure_bind]
    by_cases hm : matchesKw p = true
    · simp only [hm, if_true]; rfl
    · simp only [hm, if_false, Bool.false_eq_true]
      exact bind_bind_of (fun kv => rfl)

/-! ### a key occurring (at least) twice among the parts -/

theorem collect_twice (c : Str → List Str) (k v w : Str) (pre mid post : List (Str × Str)) :
    collect c k (pre ++ (k, v) :: (mid ++ (k, w) :: post)) =
      collect c k pre ++ c v ++ collect c k mid ++ c w ++ collect c k post := by
  simp only [collect_append, collect_cons, if_true, List.append_assoc]

def seenAfter (seen : List Str) (a : List (Str × Str)) : List Str := (a.map (·.1)).reverse ++ seen

def repAfter : List Str → Bool → List (Str × Str) → Bool
  | _, rep, [] => rep
  | seen, rep, (key, _) :: rest => repAfter (key :: seen) (rep || seen.contains key) rest

theorem inferCollect_append (k : Str) (seen : List Str) (rep : Bool) (a b : List (Str × Str)) :
    inferCollect k seen rep (a ++ b) =
      inferCollect k seen rep a ++ inferCollect k (seenAfter seen a) (repAfter seen rep a) b := by
  induction a generalizing seen rep with
  | nil => simp [inferCollect, seenAfter, repAfter]
  | cons p a ih =>
    obtain ⟨key, val⟩ := p
    simp only [List.cons_append, inferCollect, ih, repAfter, List.append_assoc]
    simp [seenAfter]

theorem inferCollect_twice (k v w : Str) (pre mid post : List (Str × Str)) (seen : List Str) (rep : Bool) :
    ∃ r1 A B C, inferCollect k seen rep (pre ++ (k, v) :: (mid ++ (k, w) :: post)) =
        A ++ inferVals r1 v ++ B ++ inferVals true w ++ C ∧
      (k ∉ pre.map (·.1) → A = []) ∧ (k ∉ mid.map (·.1) → B = []) ∧ (k ∉ post.map (·.1) → C = []) := by
  have hk : (seenAfter (k :: seenAfter seen pre) mid).contains k = true := by
    simp [seenAfter]
  let S1 := seenAfter seen pre
  let R1 := repAfter seen rep pre || S1.contains k
  let S3 := seenAfter (k :: S1) mid
  refine ⟨R1, inferCollect k seen rep pre, inferCollect k (k :: S1) R1 mid,
    inferCollect k (k :: S3) (repAfter (k :: S1) R1 mid || S3.contains k) post, ?_,
    inferCollect_absent _ _ _ _, inferCollect_absent _ _ _ _, inferCollect_absent _ _ _ _⟩
  rw [inferCollect_append]
  simp only [inferCollect, if_true]
  rw [inferCollect_append]
  simp only [inferCollect, if_true, List.append_assoc]
  rw [show (repAfter (k :: seenAfter seen pre) (repAfter seen rep pre || (seenAfter seen pre).contains k) mid ||
    (seenAfter (k :: seenAfter seen pre) mid).contains k) = true by rw [hk, Bool.or_true]]

/-! ### valued and plain raw values -/

/-- the written value is not empty once the quotes (if the path strips them) are off -/
def Valued (stripsQuotes : Bool) (val : Str) : Prop :=
  (if stripsQuotes && isQuotedVal val then stripQuotes val else val) ≠ []

instance (b : Bool) (val : Str) : Decidable (Valued b val) := by unfold Valued; infer_instance

theorem provVals_ne (d : Dialect) (val : Str) (h : Valued d.quoted val) : provVals d val ≠ [] := by
  unfold provVals
  unfold Valued at h
  cases hv : (if (d.quoted && isQuotedVal val) = true then stripQuotes val else val) with
  | nil => exact absurd hv h
  | cons c cs => simp only [List.isEmpty_cons, Bool.false_eq_true, if_false]; exact split_ne_nil _ _

theorem inferVals_ne (rep : Bool) (val : Str) (h : Valued true val) : inferVals rep val ≠ [] := by
  unfold inferVals
  unfold Valued at h
  simp only [Bool.true_and] at h
  cases hv : (if isQuotedVal val = true then stripQuotes val else val) with
  | nil => exact absurd hv h
  | cons c cs =>
    simp only [List.isEmpty_cons, Bool.false_eq_true, if_false]
    split
    · simp
    · split
      · simp
      · exact split_ne_nil _ _

/-- an ordinary single value: not empty, no comma, not written in quotes -/
def PlainVal (val : Str) : Prop := val ≠ [] ∧ ',' ∉ val ∧ isQuotedVal val = false

theorem split_comma_plain (val : Str) (h : ',' ∉ val) : Str.split [','] val = [val] := by
  have := C08.split_join_comma [val] (by simp) (by simpa using h)
  simpa [Str.join] using this

theorem provVals_plain (d : Dialect) (val : Str) (h : PlainVal val) : provVals d val = [val] := by
  obtain ⟨hne, hc, hq⟩ := h
  unfold provVals
  cases val with
  | nil => exact absurd rfl hne
  | cons c cs => simp [hq, split_comma_plain _ hc]

theorem inferVals_plain (rep : Bool) (val : Str) (h : PlainVal val) : inferVals rep val = [val] := by
  obtain ⟨hne, hc, hq⟩ := h
  unfold inferVals
  cases val with
  | nil => exact absurd rfl hne
  | cons c cs =>
    simp only [hq, Bool.false_eq_true, if_false, List.isEmpty_cons, split_comma_plain _ hc]
    split
    · rfl
    · split <;> rfl

/-! ### decoding -/

/-- `_unquote_quals` on one value list -/
def decode (d : Dialect) (ie : Bool) (vs : List Str) : List Str :=
  if !ie && d.fmt = gff3 then vs.map Quote.unquote else vs

theorem decode_length (d : Dialect) (ie : Bool) (vs : List Str) : (decode d ie vs).length = vs.length := by
  unfold decode; split <;> simp

theorem decode_append (d : Dialect) (ie : Bool) (a b : List Str) :
    decode d ie (a ++ b) = decode d ie a ++ decode d ie b := by
  unfold decode; split <;> simp

theorem get?_mapVals (q : Attrs) (f : List Str → List Str) (k : Str) :
    Dict.get? (q.map (fun (kv : Str × List Str) => (kv.1, f kv.2))) k = (Dict.get? q k).map f := by
  induction q with
  | nil => rfl
  | cons p q ih =>
    obtain ⟨k0, v0⟩ := p
    simp only [List.map_cons, Dict.get?]
    split
    · rfl
    · exact ih

theorem unquoteQuals_get? (q : Attrs) (d : Dialect) (ie : Bool) (k : Str) :
    (unquoteQuals q d ie).get? k = (q.get? k).map (decode d ie) := by
  unfold unquoteQuals decode
  split
  · exact get?_mapVals q _ k
  · simp

/-! ### `feature_from_line` hands the parsed mapping to the Feature -/

/-- the ninth tab-separated column of a line (`strict=True`) -/
def attrColumn (line : Str) : Str :=
  ((Str.splitChar '\t' (Str.rstripChars ['\n', '\r'] line))[8]?).getD []

theorem mk'_attrs (cols : List Str) (attrs : Attrs) (extra : List Str) (d : Dialect) (ko : Bool) (f : Feature)
    (h : Feature.mk' cols attrs extra d ko = .ok f) : f.attrs = attrs := by
  unfold Feature.mk' at h
  simp only [bind, Except.bind, pure, Except.pure] at h
  split at h
  · cases h
  · split at h
    · cases h
    · cases h; rfl

theorem featureFromLine_attrs (line : Str) (dl : Option Dialect) (ko ie : Bool) (f : Feature)
    (h : featureFromLine line dl true ko ie = .ok f) :
    ∃ attrs d', splitKeyvals (attrColumn line) dl ie = .ok (attrs, d') ∧ f.attrs = attrs := by
  unfold featureFromLine at h
  simp only [if_true, bind, Except.bind, pure, Except.pure] at h
  split at h
  · cases h
  · rename_i v hv
    obtain ⟨attrs, d'⟩ := v
    exact ⟨attrs, d', hv, mk'_attrs _ _ _ _ _ _ h⟩
