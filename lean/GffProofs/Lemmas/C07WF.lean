import GffProofs.Lemmas.C07Rec3

namespace GffProofs.C07
open GffModel GffModel.Parser GffModel.Grammar

/-- the conjuncts of `LineSpec.WF` that concern the attribute column, in usable form -/
structure WFacts (s : LineSpec) : Prop where
  sep : s.sep = [';'] ∨ s.sep = [';', ' '] ∨ s.sep = [' ', ';', ' ']
  key : ∀ it ∈ s.attrs, keyOk s it.key = true
  val : ∀ it ∈ s.attrs, ∀ v ∈ it.vals, valOk s v = true
  text : ∀ it ∈ s.attrs, itemTextOk s it = true
  nodup : (s.attrs.map (·.key)).Nodup
  first : ∀ it tl, s.style = .eq → s.attrs = it :: tl → it.key.all isWordChar = true ∧ it.vals ≠ []
  empty : s.attrs = [] → s.sep = [';'] ∧ s.trailing = false ∧ s.style = .eq ∧ s.quoted = false ∧ s.repeated = false
  lt2 : (s.attrs.flatMap (renderItem s)).length < 2 → s.sep = [';']
  rep : s.repeated = true → ∃ it ∈ s.attrs, it.vals.length > 1
  quo : s.quoted = true → (∃ it ∈ s.attrs, it.vals ≠ []) ∨ s.style = .space

theorem wfacts (s : LineSpec) (h : s.WF = true) : WFacts s := by
  simp only [LineSpec.WF, Bool.and_eq_true] at h
  obtain ⟨⟨⟨⟨⟨⟨⟨⟨⟨⟨⟨⟨⟨h1, h2⟩, h3⟩, h4⟩, h5⟩, hsep⟩, hitems⟩, hnodup⟩, hfirst⟩, hempty⟩, hlt2⟩, hrep⟩, hq⟩, hfv⟩ := h
  simp only [List.all_eq_true, Bool.and_eq_true] at hitems
  refine ⟨?_, ?_, ?_, ?_, ?_, ?_, ?_, ?_, ?_, ?_⟩
  · simpa [or_assoc] using hsep
  · exact fun it hit => (hitems it hit).1.1
  · exact fun it hit v hv => (hitems it hit).1.2 v hv
  · exact fun it hit => (hitems it hit).2
  · simpa using hnodup
  · intro it tl hs ha
    rw [hs, ha] at hfirst hfv
    simp only at hfirst hfv
    refine ⟨hfirst, ?_⟩
    intro e; rw [e] at hfv; simp at hfv
  · intro ha
    rw [ha] at hempty
    simpa [and_assoc] using hempty
  · intro hl
    rw [if_pos hl] at hlt2; simpa using hlt2
  · intro hr
    simpa [hr] using hrep
  · intro hr
    rw [if_pos hr] at hq
    simp only [Bool.or_eq_true, List.any_eq_true] at hq
    rcases hq with ⟨it, hit, hv⟩ | hq
    · left; refine ⟨it, hit, ?_⟩; intro e; rw [e] at hv; simp at hv
    · right; simpa using hq

end GffProofs.C07
