/-
  Lemmas for C17: the insertion-ordered `Dict` (association list) under `set` and folds of `set`.
-/
import GffModel.Basic

namespace GffProofs.DictL
open GffModel

variable {α : Type}

theorem keys_nil : Dict.keys ([] : Dict α) = [] := rfl
theorem keys_cons (p : Str × α) (d : Dict α) : Dict.keys (p :: d) = p.1 :: Dict.keys d := rfl

theorem get?_set (d : Dict α) (k k' : Str) (v : α) :
    Dict.get? (Dict.set d k v) k' = if k = k' then some v else Dict.get? d k' := by
  induction d with
  | nil => simp [Dict.set, Dict.get?]
  | cons p d ih =>
    obtain ⟨k0, v0⟩ := p
    simp only [Dict.set]
    by_cases h0 : k0 = k
    · subst h0
      simp only [if_true, Dict.get?]
      split <;> rfl
    · simp only [h0, if_false, Dict.get?, ih]
      by_cases h1 : k0 = k'
      · subst h1
        have : ¬ k = k0 := fun h => h0 h.symm
        simp [this]
      · simp [h1]

theorem get?_set_self (d : Dict α) (k : Str) (v : α) : Dict.get? (Dict.set d k v) k = some v := by
  rw [get?_set]; simp

theorem get?_eq_none_iff (d : Dict α) (k : Str) : Dict.get? d k = none ↔ k ∉ Dict.keys d := by
  induction d with
  | nil => simp [Dict.get?, Dict.keys]
  | cons p d ih =>
    obtain ⟨k0, v0⟩ := p
    simp only [Dict.get?, Dict.keys, List.map_cons, List.mem_cons, not_or]
    by_cases h : k0 = k
    · subst h; simp
    · simp only [h, if_false]
      rw [ih]
      simp only [Dict.keys]
      constructor
      · intro hh; exact ⟨fun e => h e.symm, hh⟩
      · intro hh; exact hh.2

theorem get?_isSome_iff (d : Dict α) (k : Str) : (Dict.get? d k).isSome ↔ k ∈ Dict.keys d := by
  cases h : Dict.get? d k with
  | none => simp [(get?_eq_none_iff d k).1 h]
  | some v =>
    simp only [Option.isSome_some, true_iff]
    apply Classical.byContradiction
    intro hn
    rw [(get?_eq_none_iff d k).2 hn] at h
    cases h

theorem contains_iff (d : Dict α) (k : Str) : Dict.contains d k = true ↔ k ∈ Dict.keys d := by
  unfold Dict.contains; exact get?_isSome_iff d k

theorem mem_of_get? (d : Dict α) (k : Str) (v : α) (h : Dict.get? d k = some v) : (k, v) ∈ d := by
  induction d with
  | nil => simp [Dict.get?] at h
  | cons p d ih =>
    obtain ⟨k0, v0⟩ := p
    simp only [Dict.get?] at h
    by_cases h0 : k0 = k
    · subst h0; simp only [if_true, Option.some.injEq] at h; subst h; simp
    · simp only [h0, if_false] at h
      exact List.mem_cons_of_mem _ (ih h)

theorem get?_of_mem (d : Dict α) (hn : (Dict.keys d).Nodup) (k : Str) (v : α) (h : (k, v) ∈ d) :
    Dict.get? d k = some v := by
  induction d with
  | nil => cases h
  | cons p d ih =>
    obtain ⟨k0, v0⟩ := p
    simp only [Dict.keys, List.map_cons, List.nodup_cons] at hn
    simp only [Dict.get?]
    rcases List.mem_cons.1 h with h | h
    · cases h; simp
    · have hk : k ∈ Dict.keys d := List.mem_map.2 ⟨(k, v), h, rfl⟩
      have : k0 ≠ k := fun e => hn.1 (e ▸ hk)
      simp only [this, if_false]
      exact ih hn.2 h

theorem keys_set_of_mem (d : Dict α) (k : Str) (v : α) (h : k ∈ Dict.keys d) :
    Dict.keys (Dict.set d k v) = Dict.keys d := by
  induction d with
  | nil => simp [Dict.keys] at h
  | cons p d ih =>
    obtain ⟨k0, v0⟩ := p
    simp only [Dict.set]
    by_cases h0 : k0 = k
    · subst h0; simp [Dict.keys]
    · simp only [h0, if_false, Dict.keys, List.map_cons, List.cons.injEq, true_and]
      simp only [Dict.keys, List.map_cons, List.mem_cons] at h
      rcases h with h | h
      · exact absurd h.symm h0
      · exact ih h

theorem set_of_not_mem (d : Dict α) (k : Str) (v : α) (h : k ∉ Dict.keys d) :
    Dict.set d k v = d ++ [(k, v)] := by
  induction d with
  | nil => rfl
  | cons p d ih =>
    obtain ⟨k0, v0⟩ := p
    simp only [Dict.keys, List.map_cons, List.mem_cons, not_or] at h
    have : ¬ k0 = k := fun e => h.1 e.symm
    simp only [Dict.set, this, if_false, List.cons_append, List.cons.injEq, true_and]
    exact ih h.2

theorem keys_set_of_not_mem (d : Dict α) (k : Str) (v : α) (h : k ∉ Dict.keys d) :
    Dict.keys (Dict.set d k v) = Dict.keys d ++ [k] := by
  rw [set_of_not_mem d k v h]; simp [Dict.keys]

theorem mem_keys_set (d : Dict α) (k k' : Str) (v : α) :
    k' ∈ Dict.keys (Dict.set d k v) ↔ k' = k ∨ k' ∈ Dict.keys d := by
  by_cases h : k ∈ Dict.keys d
  · rw [keys_set_of_mem d k v h]
    constructor
    · exact Or.inr
    · rintro (e | e)
      · exact e ▸ h
      · exact e
  · rw [keys_set_of_not_mem d k v h]
    simp only [List.mem_append, List.mem_singleton]
    exact Or.comm

theorem nodup_keys_set (d : Dict α) (k : Str) (v : α) (hn : (Dict.keys d).Nodup) :
    (Dict.keys (Dict.set d k v)).Nodup := by
  by_cases h : k ∈ Dict.keys d
  · rw [keys_set_of_mem d k v h]; exact hn
  · rw [keys_set_of_not_mem d k v h]
    exact List.nodup_append.2 ⟨hn, by simp, by
      intro a ha b hb; simp only [List.mem_singleton] at hb; subst hb; exact fun e => h (e ▸ ha)⟩

/-- two dicts with the same key sequence (no repeated key) and the same lookups are equal -/
theorem ext (d e : Dict α) (hk : Dict.keys d = Dict.keys e) (hn : (Dict.keys d).Nodup)
    (hg : ∀ k, Dict.get? d k = Dict.get? e k) : d = e := by
  induction d generalizing e with
  | nil =>
    cases e with
    | nil => rfl
    | cons q e => simp [Dict.keys] at hk
  | cons p d ih =>
    cases e with
    | nil => simp [Dict.keys] at hk
    | cons q e =>
      obtain ⟨k0, v0⟩ := p
      obtain ⟨k1, v1⟩ := q
      simp only [Dict.keys, List.map_cons, List.cons.injEq] at hk
      obtain ⟨hk0, hkt⟩ := hk
      subst hk0
      simp only [Dict.keys, List.map_cons, List.nodup_cons] at hn
      have h0 := hg k0
      simp only [Dict.get?, if_true, Option.some.injEq] at h0
      subst h0
      have : d = e := by
        apply ih e hkt hn.2
        intro k
        have hk := hg k
        simp only [Dict.get?] at hk
        by_cases hh : k0 = k
        · subst hh
          have a1 : Dict.get? d k0 = none := (get?_eq_none_iff d k0).2 hn.1
          have a2 : Dict.get? e k0 = none := (get?_eq_none_iff e k0).2 (by
            show k0 ∉ Dict.keys e
            simp only [Dict.keys] at hkt ⊢; rw [← hkt]; exact hn.1)
          rw [a1, a2]
        · simpa [hh] using hk
      rw [this]

/-! ### a fold of `set` with a value transformer: `for k, v in l: d[k] = g(v)` -/

def foldSet {β : Type} (g : β → α) (d : Dict α) (l : List (Str × β)) : Dict α :=
  l.foldl (fun d p => Dict.set d p.1 (g p.2)) d

theorem get?_foldSet {β : Type} (g : β → α) (l : Dict β) : ∀ (d : Dict α), (Dict.keys l).Nodup → ∀ k,
    Dict.get? (foldSet g d l) k =
      match Dict.get? l k with
      | some v => some (g v)
      | none => Dict.get? d k := by
  induction l with
  | nil => intro d _ k; simp [foldSet, Dict.get?]
  | cons p l ih =>
    intro d hn k
    obtain ⟨k0, v0⟩ := p
    simp only [Dict.keys, List.map_cons, List.nodup_cons] at hn
    have := ih (Dict.set d k0 (g v0)) hn.2 k
    simp only [foldSet, List.foldl_cons] at this ⊢
    rw [this, get?_set]
    simp only [Dict.get?]
    by_cases h : k0 = k
    · subst h
      have : Dict.get? l k0 = none := (get?_eq_none_iff l k0).2 hn.1
      simp [this]
    · simp [h]

theorem mem_keys_foldSet {β : Type} (g : β → α) (l : Dict β) : ∀ (d : Dict α) k,
    k ∈ Dict.keys (foldSet g d l) ↔ k ∈ Dict.keys d ∨ k ∈ Dict.keys l := by
  induction l with
  | nil => intro d k; simp [foldSet, Dict.keys]
  | cons p l ih =>
    intro d k
    have := ih (Dict.set d p.1 (g p.2)) k
    simp only [foldSet, List.foldl_cons] at this ⊢
    rw [this, mem_keys_set]
    simp only [Dict.keys, List.map_cons, List.mem_cons]
    constructor
    · rintro ((h | h) | h)
      · exact Or.inr (Or.inl h)
      · exact Or.inl h
      · exact Or.inr (Or.inr h)
    · rintro (h | h | h)
      · exact Or.inl (Or.inr h)
      · exact Or.inl (Or.inl h)
      · exact Or.inr h

theorem keys_foldSet {β : Type} (g : β → α) (l : Dict β) : ∀ (d : Dict α), (Dict.keys l).Nodup →
    Dict.keys (foldSet g d l) = Dict.keys d ++ (Dict.keys l).filter (fun k => !(Dict.keys d).contains k) := by
  induction l with
  | nil => intro d _; simp [foldSet, keys_nil]
  | cons p l ih =>
    intro d hn
    obtain ⟨k0, v0⟩ := p
    rw [keys_cons, List.nodup_cons] at hn
    have := ih (Dict.set d k0 (g v0)) hn.2
    simp only [foldSet, List.foldl_cons] at this ⊢
    rw [this, keys_cons, List.filter_cons]
    by_cases h : k0 ∈ Dict.keys d
    · rw [keys_set_of_mem d k0 (g v0) h]
      simp [h]
    · rw [keys_set_of_not_mem d k0 (g v0) h]
      have : (!(Dict.keys d).contains k0) = true := by simp [h]
      simp only [this, if_true, List.append_assoc, List.singleton_append]
      congr 2
      apply List.filter_congr
      intro x hx
      have : x ≠ k0 := fun e => hn.1 (e ▸ hx)
      simp [this]

theorem nodup_keys_foldSet {β : Type} (g : β → α) (l : Dict β) : ∀ (d : Dict α), (Dict.keys d).Nodup →
    (Dict.keys (foldSet g d l)).Nodup := by
  induction l with
  | nil => intro d h; exact h
  | cons p l ih =>
    intro d h
    exact ih _ (nodup_keys_set d p.1 (g p.2) h)

theorem ofList_of_nodup (l : Dict α) (hn : (Dict.keys l).Nodup) : Dict.ofList l = l := by
  have hf : Dict.ofList l = foldSet id [] l := rfl
  rw [hf]
  apply ext
  · rw [keys_foldSet id l [] hn]
    simp [keys_nil]
  · exact nodup_keys_foldSet id l [] List.nodup_nil
  · intro k
    rw [get?_foldSet id l [] hn k]
    cases Dict.get? l k <;> simp [Dict.get?]

end GffProofs.DictL
