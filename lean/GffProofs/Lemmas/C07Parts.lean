/-
  The rendered parts of one attribute item and what the parser stages need of them.
-/
import GffProofs.Lemmas.C07Chars
import GffProofs.Lemmas.C07Item
import GffProofs.Lemmas.C07Str

namespace GffProofs.C07
open GffModel GffModel.Parser GffModel.Grammar GffModel.Quote

structure KeyOk (k : Str) : Prop where
  ne : k ≠ []
  semi : ';' ∉ k
  eqs : '=' ∉ k
  sp : ' ' ∉ k
  head : (k.head?.map Str.isPySpace).getD false = false
  last : (k.getLast?.map Str.isPySpace).getD false = false

theorem keyOk_facts (s : LineSpec) (k : Str) (h : keyOk s k = true) : KeyOk k := by
  unfold keyOk at h
  simp only [Bool.and_eq_true] at h
  obtain ⟨⟨⟨h1, h2⟩, h3⟩, h4⟩ := h
  refine ⟨?_, noneOf_not_mem _ _ h2 ';' (by simp), noneOf_not_mem _ _ h2 '=' (by simp),
    noneOf_not_mem _ _ h2 ' ' (by simp), by simpa using h3, by simpa using h4⟩
  intro e; rw [e] at h1; simp at h1

def mkPart (s : LineSpec) (key t : Str) : Str := if t = [] then key else key ++ s.kvSep ++ t

theorem wrapQ_ne_nil (s : LineSpec) (X : Str) (h : X ≠ []) : wrapQ s X ≠ [] := by
  unfold wrapQ; split
  · simp
  · exact h

theorem join_enc_ne_nil (s : LineSpec) (v : Str) (vs : List Str) (h : s.encVal v ≠ []) :
    Str.join [','] ((v :: vs).map s.encVal) ≠ [] := by
  cases vs with
  | nil => simpa [Str.join]
  | cons w ws => simp [Str.join, h]

theorem renderItem_eq (s : LineSpec) (it : AttrItem) (hne : ∀ v ∈ it.vals, s.encVal v ≠ []) :
    renderItem s it = (itemTexts s it).map (mkPart s it.key) := by
  unfold renderItem itemTexts rawTexts
  cases hv : it.vals with
  | nil => by_cases hg : s.fmt = gtf <;> simp [hg, mkPart]
  | cons v vs =>
    rw [hv] at hne
    simp only [List.isEmpty_cons, Bool.false_eq_true, if_false]
    split
    · simp only [List.map_map]
      apply List.map_congr_left
      intro w hw
      simp [mkPart, wrapQ_ne_nil s _ (hne w hw)]
    · have hw := wrapQ_ne_nil s _ (join_enc_ne_nil s v vs (hne v (by simp)))
      simp only [List.map_cons] at hw
      simp [mkPart, hw]

theorem mem_join (sep : Str) (parts : List Str) (c : Char) (h : c ∈ Str.join sep parts) :
    c ∈ sep ∨ ∃ p ∈ parts, c ∈ p := by
  induction parts with
  | nil => simp [Str.join] at h
  | cons p rest ih =>
    cases rest with
    | nil => right; exact ⟨p, by simp, by simpa [Str.join] using h⟩
    | cons q rest =>
      rw [join_cons_cons] at h
      rcases List.mem_append.mp h with h | h
      · rcases List.mem_append.mp h with h | h
        · right; exact ⟨p, by simp, h⟩
        · left; exact h
      · rcases ih h with h | ⟨p', hp', hc⟩
        · left; exact h
        · right; exact ⟨p', by simp [hp'], hc⟩

/-- facts about a value text before quoting -/
structure RawOk (s : LineSpec) (X : Str) : Prop where
  ne : X ≠ []
  semi : ';' ∉ X
  last : X.getLast? ≠ some ' '
  eqs : s.style = .eq → '=' ∉ X
  lastsp : s.style = .space → s.quoted = false → (X.getLast?.map Str.isPySpace).getD false = false

theorem rawOk (s : LineSpec) (it : AttrItem) (hv : ∀ v ∈ it.vals, EncOk s v) (hne : it.vals ≠ [])
    (X : Str) (hX : X ∈ rawTexts s it) : RawOk s X := by
  unfold rawTexts at hX
  split at hX
  · obtain ⟨v, hv', rfl⟩ := List.mem_map.mp hX
    have := hv v hv'
    exact ⟨this.ne, this.semi, this.last, this.eqs, this.lastsp⟩
  · simp only [List.mem_cons, List.not_mem_nil, or_false] at hX
    subst hX
    obtain ⟨v, vs, hvs⟩ : ∃ v vs, it.vals = v :: vs := by
      cases h : it.vals with
      | nil => exact absurd h hne
      | cons a b => exact ⟨a, b, rfl⟩
    have hmem : ∀ c, c ∈ Str.join [','] (it.vals.map s.encVal) → c = ',' ∨ ∃ v ∈ it.vals, c ∈ s.encVal v := by
      intro c hc
      rcases mem_join _ _ _ hc with h | ⟨p, hp, hc⟩
      · left; simpa using h
      · obtain ⟨w, hw, rfl⟩ := List.mem_map.mp hp
        exact Or.inr ⟨w, hw, hc⟩
    have hlast : (Str.join [','] (it.vals.map s.encVal)).getLast? =
        (s.encVal (it.vals.getLast hne)).getLast? := by
      rw [join_getLast? [','] (it.vals.map s.encVal) (by simpa using hne)
        (by intro p hp; obtain ⟨w, hw, rfl⟩ := List.mem_map.mp hp; exact (hv w hw).ne)]
      rw [List.getLast_map]
    have hl := hv _ (List.getLast_mem hne)
    refine ⟨?_, ?_, ?_, ?_, ?_⟩
    · rw [hvs]; exact join_enc_ne_nil s v vs (hv v (by simp [hvs])).ne
    · intro h
      rcases hmem _ h with h | ⟨w, hw, hc⟩
      · exact absurd h (by decide)
      · exact (hv w hw).semi hc
    · rw [hlast]; exact hl.last
    · intro hs h
      rcases hmem _ h with h | ⟨w, hw, hc⟩
      · exact absurd h (by decide)
      · exact (hv w hw).eqs hs hc
    · intro h1 h2; rw [hlast]; exact hl.lastsp h1 h2

/-- facts about the text after the key/value separator -/
structure TextOk (s : LineSpec) (t : Str) : Prop where
  semi : ';' ∉ t
  last : t.getLast? ≠ some ' '
  eqs : s.style = .eq → '=' ∉ t
  lastsp : s.style = .space → (t.getLast?.map Str.isPySpace).getD false = false

theorem wrapQ_getLast? (s : LineSpec) (X : Str) :
    (wrapQ s X).getLast? = if s.quoted then some '"' else X.getLast? := by
  unfold wrapQ; split
  · rw [List.getLast?_append]; simp
  · rfl

theorem textOk (s : LineSpec) (it : AttrItem) (hv : ∀ v ∈ it.vals, EncOk s v)
    (t : Str) (ht : t ∈ itemTexts s it) : TextOk s t := by
  unfold itemTexts at ht
  split at ht
  · have : t = ['"', '"'] ∨ t = [] := by
      split at ht <;> simp at ht <;> simp [ht]
    rcases this with rfl | rfl
    · exact ⟨by decide, by decide, fun _ => by decide, fun _ => by decide⟩
    · exact ⟨by simp, by simp, fun _ => by simp, fun _ => by simp⟩
  · rename_i hne
    have hne' : it.vals ≠ [] := by simpa using hne
    obtain ⟨X, hX, rfl⟩ := List.mem_map.mp ht
    have R := rawOk s it hv hne' X hX
    refine ⟨?_, ?_, ?_, ?_⟩
    · unfold wrapQ; split
      · simp only [List.mem_cons, List.mem_append, List.not_mem_nil, or_false]
        intro h
        rcases h with (h | h) | h
        · exact absurd h (by decide)
        · exact R.semi h
        · exact absurd h (by decide)
      · exact R.semi
    · rw [wrapQ_getLast?]; split
      · decide
      · exact R.last
    · intro hs
      unfold wrapQ; split
      · simp only [List.mem_cons, List.mem_append, List.not_mem_nil, or_false]
        intro h
        rcases h with (h | h) | h
        · exact absurd h (by decide)
        · exact R.eqs hs h
        · exact absurd h (by decide)
      · exact R.eqs hs
    · intro hs
      rw [wrapQ_getLast?]; split
      · decide
      · rename_i hq
        exact R.lastsp hs (by simpa using hq)

end GffProofs.C07
