/-
  C05c, generic layer 1 — the whole-import theorems of C05 §4 (`error` / no collision / `warning` / `replace` /
  `create_unique`) proved once for an ABSTRACT importer `Imp α`:

  * arrivals are `a : α` with a feature `feat a` and a key `key a`;
  * one step of the importer is "the decision table `fileSpec` (C05 `strategy_table`) on `(feat a, key a)`, then
    `attach`" (`Imp.Table`), where `attach` adds exactly the relation rows `link a fid` for an arrival filed
    under `fid` and nothing for an ignored one.

  The GFF3 importer with the default `id_spec` is the instance `feat = id, key = keyOf, link = linksOf`
  (that is C05 §4); the GTF importer is the instance `link = gtfLinks cfg` of `Props/C05c.lean`.
-/
import GffProofs.Lemmas.C05cSpec

namespace GffProofs.C05
open GffModel GffModel.Create GffModel.Interface
open GffProofs.C04 (autoId incr_spec IdsNodup)
open GffProofs.C02 (idOf parentsOf gffCfg)

/-- an abstract line importer: configuration, what an arrival is, which relation rows it contributes, and
the step function -/
structure Imp (α : Type) where
  cfg : Cfg
  feat : α → Feature
  key : α → Str
  link : α → Str → List Rel
  attach : Db → Option Str → α → Db
  step : Db × Dict Nat → α → Py (Db × Dict Nat)
  attach_none : ∀ db a, attach db none a = db
  attach_same : ∀ db filed a, SameButRels db (attach db filed a)
  attach_mem : ∀ db fid a r, r ∈ (attach db (some fid) a).relations ↔ r ∈ db.relations ∨ r ∈ link a fid

/-- on the arrivals `as`, one step = key, decision table, links -/
def Imp.Table {α : Type} (I : Imp α) (as : List α) : Prop :=
  ∀ a ∈ as, ∀ db auto, I.step (db, auto) a =
    match fileSpec I.cfg db auto (I.feat a) (I.key a) with
    | .error e => .error e
    | .ok (db1, auto2, filed) => .ok (I.attach db1 filed a, auto2)

theorem Imp.Table.sub {α : Type} {I : Imp α} {as as' : List α} (h : I.Table as) (hs : ∀ x ∈ as', x ∈ as) :
    I.Table as' := fun a ha => h a (hs a ha)

theorem Imp.Table.tail {α : Type} {I : Imp α} {a : α} {as : List α} (h : I.Table (a :: as)) : I.Table as :=
  h.sub (fun _ hx => List.mem_cons_of_mem _ hx)

theorem firstsBy_congr {α β : Type} [DecidableEq β] (key : α → β) (s1 s2 : List β) (l : List α)
    (h : ∀ k, k ∈ s1 ↔ k ∈ s2) : firstsBy key s1 l = firstsBy key s2 l := by
  induction l generalizing s1 s2 with
  | nil => rfl
  | cons f fs ih =>
    simp only [firstsBy]
    by_cases hk : key f ∈ s1
    · rw [if_pos hk, if_pos ((h _).mp hk)]; exact ih s1 s2 h
    · rw [if_neg hk, if_neg (fun h2 => hk ((h _).mpr h2))]
      congr 1
      apply ih
      intro k; simp only [List.mem_cons, h k]

section specLemmas
variable {α : Type} (feat : α → Feature) (key : α → Str)

theorem lastBy_cons (f : α) (fs : List α) (k : Str) :
    lastBy key (f :: fs) k =
      match lastBy key fs k with
      | some g => some g
      | none => if key f = k then some f else none := by
  unfold lastBy
  by_cases h : key f = k
  · rw [List.filter_cons_of_pos (by simpa using h), List.getLast?_cons, if_pos h]
    cases (fs.filter (fun f => decide (key f = k))).getLast? <;> rfl
  · rw [List.filter_cons_of_neg (by simpa using h), if_neg h]
    cases (fs.filter (fun f => decide (key f = k))).getLast? <;> rfl

theorem replacedBy_cons_ne (f : α) (fs : List α) (r : Row) (h : r.id ≠ key f) :
    replacedBy feat key (f :: fs) r = replacedBy feat key fs r := by
  unfold replacedBy
  rw [lastBy_cons, if_neg (fun e => h e.symm)]
  cases lastBy key fs r.id <;> rfl

theorem replacedBy_cons_eq (f : α) (fs : List α) (r : Row) (h : r.id = key f) :
    replacedBy feat key (f :: fs) r = replacedBy feat key fs (storedRow (feat f) (key f)) := by
  unfold replacedBy
  rw [lastBy_cons, if_pos h.symm]
  have : (storedRow (feat f) (key f)).id = r.id := by rw [h]; rfl
  rw [this]
  cases lastBy key fs r.id with
  | none => simp only [h]
  | some g => rfl

theorem placementsBy_getElem? (ids0 : List Str) (auto0 : Dict Nat) (pre rest : List α) (i : Nat) :
    (placementsBy key ids0 auto0 pre rest)[i]? =
      (rest[i]?).map (fun f => (f, uniqueIdBy key ids0 auto0 (pre ++ rest.take i) (key f))) := by
  induction rest generalizing pre i with
  | nil => simp [placementsBy]
  | cons f rest ih =>
    cases i with
    | zero => simp [placementsBy]
    | succ i =>
      simp only [placementsBy, List.getElem?_cons_succ, List.take_succ_cons]
      rw [ih]
      simp

theorem placementsBy_length (ids0 : List Str) (auto0 : Dict Nat) (pre rest : List α) :
    (placementsBy key ids0 auto0 pre rest).length = rest.length := by
  induction rest generalizing pre with
  | nil => rfl
  | cons f rest ih => simp [placementsBy, ih]

theorem placementsBy_shift (ids0 ids1 : List Str) (auto0 auto1 : Dict Nat) (f : α) (fs : List α)
    (h : ∀ pre, ∀ g ∈ fs, uniqueIdBy key ids1 auto1 pre (key g) = uniqueIdBy key ids0 auto0 (f :: pre) (key g)) :
    ∀ pre, placementsBy key ids1 auto1 pre fs = placementsBy key ids0 auto0 (f :: pre) fs := by
  induction fs with
  | nil => intro pre; rfl
  | cons g fs ih =>
    intro pre
    simp only [placementsBy]
    rw [h pre g (by simp), ih (fun pre g' hg' => h pre g' (List.mem_cons_of_mem _ hg')) (pre ++ [g])]
    rfl

theorem priorCountBy_cons (ids0 : List Str) (f : α) (pre : List α) (k : Str) :
    priorCountBy key ids0 (f :: pre) k = priorCountBy key ids0 pre k + (if key f = k then 1 else 0) := by
  unfold priorCountBy
  by_cases h : key f = k
  · rw [List.filter_cons_of_pos (by simpa using h), if_pos h]; simp only [List.length_cons]; omega
  · rw [List.filter_cons_of_neg (by simpa using h), if_neg h]; omega

/-- a simple sufficient condition for `FreshBy`: no stored id and no key contains an underscore -/
theorem freshBy_of_no_underscore (ids0 : List Str) (auto0 : Dict Nat) (as : List α)
    (h0 : ∀ x ∈ ids0, '_' ∉ x) (h1 : ∀ a ∈ as, '_' ∉ key a) : FreshBy key ids0 auto0 as := by
  intro f _ n _
  refine ⟨fun hm => h0 _ hm (underscore_mem_autoId _ _), fun g hg e => ?_⟩
  exact h1 g hg (by rw [e]; exact underscore_mem_autoId _ _)

end specLemmas

section generic
variable {α : Type} (I : Imp α)

/-- the row an arrival is stored as under its own key -/
def Imp.rowOf (a : α) : Row := storedRow (I.feat a) (I.key a)

/-- the state after filing under `fid` a row list `rows'` and attaching the arrival's links -/
theorem Imp.attach_facts (db : Db) (rows' : List Row) (fid : Str) (a : α) :
    let db1 := I.attach { db with features := rows' } (some fid) a
    db1.features = rows' ∧ (∀ r, r ∈ db1.relations ↔ r ∈ db.relations ∨ r ∈ I.link a fid) ∧ SameOther db db1 := by
  intro db1
  have hs := I.attach_same { db with features := rows' } (some fid) a
  exact ⟨hs.1, fun r => I.attach_mem { db with features := rows' } fid a r, hs.other⟩

/-! ### one arrival -/

theorem Imp.istep_fresh {db : Db} {auto : Dict Nat} {a : α}
    (ht : I.step (db, auto) a =
      match fileSpec I.cfg db auto (I.feat a) (I.key a) with
      | .error e => .error e
      | .ok (db1, auto2, filed) => .ok (I.attach db1 filed a, auto2))
    (hfree : I.key a ∉ idsOf db) :
    I.step (db, auto) a =
      .ok (I.attach { db with features := db.features ++ [I.rowOf a] } (some (I.key a)) a, auto) := by
  rw [ht]
  unfold fileSpec
  rw [if_pos ((hasId_false_iff db _).mpr hfree)]
  rfl

theorem Imp.istep_error {db : Db} {auto : Dict Nat} {a : α} (hs : I.cfg.strategy = .error)
    (ht : I.step (db, auto) a =
      match fileSpec I.cfg db auto (I.feat a) (I.key a) with
      | .error e => .error e
      | .ok (db1, auto2, filed) => .ok (I.attach db1 filed a, auto2))
    (hmem : I.key a ∈ idsOf db) :
    I.step (db, auto) a = .error .value := by
  rw [ht]
  unfold fileSpec
  rw [if_neg (by rw [(hasId_iff db _).mpr hmem]; simp), hs]

theorem Imp.istep_warning {db : Db} {auto : Dict Nat} {a : α} (hs : I.cfg.strategy = .warning)
    (ht : I.step (db, auto) a =
      match fileSpec I.cfg db auto (I.feat a) (I.key a) with
      | .error e => .error e
      | .ok (db1, auto2, filed) => .ok (I.attach db1 filed a, auto2))
    (hmem : I.key a ∈ idsOf db) :
    I.step (db, auto) a = .ok (db, auto) := by
  rw [ht]
  unfold fileSpec
  rw [if_neg (by rw [(hasId_iff db _).mpr hmem]; simp), hs]
  simp only [I.attach_none]

theorem Imp.istep_replace {db : Db} {auto : Dict Nat} {a : α} (hs : I.cfg.strategy = .replace)
    (ht : I.step (db, auto) a =
      match fileSpec I.cfg db auto (I.feat a) (I.key a) with
      | .error e => .error e
      | .ok (db1, auto2, filed) => .ok (I.attach db1 filed a, auto2))
    (hmem : I.key a ∈ idsOf db) :
    I.step (db, auto) a =
      .ok (I.attach { db with features := db.features.map (fun x => if x.id = I.key a then I.rowOf a else x) }
            (some (I.key a)) a, auto) := by
  rw [ht]
  unfold fileSpec
  rw [if_neg (by rw [(hasId_iff db _).mpr hmem]; simp), hs]
  rfl

theorem Imp.istep_unique {db : Db} {auto : Dict Nat} {a : α} (hs : I.cfg.strategy = .createUnique)
    (ht : I.step (db, auto) a =
      match fileSpec I.cfg db auto (I.feat a) (I.key a) with
      | .error e => .error e
      | .ok (db1, auto2, filed) => .ok (I.attach db1 filed a, auto2))
    (hmem : I.key a ∈ idsOf db) (hfree : nextId auto (I.key a) ∉ idsOf db) :
    I.step (db, auto) a =
      .ok (I.attach { db with features := db.features ++ [storedRow (I.feat a) (nextId auto (I.key a))] }
            (some (nextId auto (I.key a))) a, bump auto (I.key a)) := by
  rw [ht]
  unfold fileSpec
  rw [if_neg (by rw [(hasId_iff db _).mpr hmem]; simp), hs]
  simp only
  rw [if_neg (by rw [(hasId_false_iff db _).mpr hfree]; simp)]
  rfl

theorem Imp.istep_unique_taken {db : Db} {auto : Dict Nat} {a : α} (hs : I.cfg.strategy = .createUnique)
    (ht : I.step (db, auto) a =
      match fileSpec I.cfg db auto (I.feat a) (I.key a) with
      | .error e => .error e
      | .ok (db1, auto2, filed) => .ok (I.attach db1 filed a, auto2))
    (hmem : I.key a ∈ idsOf db) (htaken : nextId auto (I.key a) ∈ idsOf db) :
    I.step (db, auto) a = .error .integrity := by
  rw [ht]
  unfold fileSpec
  rw [if_neg (by rw [(hasId_iff db _).mpr hmem]; simp), hs]
  simp only
  rw [if_pos ((hasId_iff db _).mpr htaken)]

/-! ### no collision: every strategy stores every arrival, in order -/

theorem Imp.no_collision_fold :
    ∀ (as : List α) (db : Db) (auto : Dict Nat), I.Table as → (idsOf db ++ as.map I.key).Nodup →
      ∃ db', as.foldlM I.step (db, auto) = .ok (db', auto) ∧
        db'.features = db.features ++ as.map I.rowOf ∧
        (∀ r, r ∈ db'.relations ↔ r ∈ db.relations ∨ ∃ a ∈ as, r ∈ I.link a (I.key a)) ∧
        SameOther db db' := by
  intro as
  induction as with
  | nil => intro db auto _ _; exact ⟨db, rfl, by simp, by simp, SameOther.refl db⟩
  | cons f fs ih =>
    intro db auto hT hnd
    have hfree : I.key f ∉ idsOf db := by
      intro hm
      rw [List.map_cons, List.nodup_append] at hnd
      exact hnd.2.2 _ hm _ (by simp) rfl
    have hstep := I.istep_fresh (hT f (by simp) db auto) hfree
    obtain ⟨hf1, hr1, ho1⟩ := I.attach_facts db (db.features ++ [I.rowOf f]) (I.key f) f
    generalize I.attach { db with features := db.features ++ [I.rowOf f] } (some (I.key f)) f = db1 at *
    have hnd1 : (idsOf db1 ++ fs.map I.key).Nodup := by
      have : idsOf db1 = idsOf db ++ [I.key f] := by simp [idsOf, hf1, Imp.rowOf]
      rw [this, List.append_assoc]; simpa using hnd
    obtain ⟨db', hrun, hf', hr', ho'⟩ := ih db1 auto hT.tail hnd1
    refine ⟨db', ?_, ?_, ?_, ho1.trans ho'⟩
    · rw [foldlM_cons_ok _ _ _ _ _ hstep]; exact hrun
    · rw [hf', hf1]; simp
    · intro r
      rw [hr', hr1]
      simp only [List.mem_cons, exists_eq_or_imp]
      exact or_assoc

/-- in a list with a repeated entry after a duplicate-free start there is a FIRST repeated entry -/
theorem first_collision {β : Type} (ids : List Str) (key : β → Str) :
    ∀ (as : List β), ids.Nodup → ¬ (ids ++ as.map key).Nodup →
      ∃ pre a post, as = pre ++ a :: post ∧ (ids ++ pre.map key).Nodup ∧ key a ∈ ids ++ pre.map key := by
  intro as
  induction as using snoc_induction with
  | h0 => intro h0 h1; exact absurd (by simpa using h0) h1
  | hs as a ih =>
    intro h0 h1
    by_cases hnd : (ids ++ as.map key).Nodup
    · refine ⟨as, a, [], rfl, hnd, ?_⟩
      apply Classical.byContradiction
      intro hn
      apply h1
      rw [List.map_append, ← List.append_assoc, List.nodup_append]
      refine ⟨hnd, by simp, ?_⟩
      intro x hx y hy
      simp only [List.map_cons, List.map_nil, List.mem_singleton] at hy
      subst hy
      intro e; subst e; exact hn hx
    · obtain ⟨pre, b, post, rfl, h2, h3⟩ := ih h0 hnd
      exact ⟨pre, b, post ++ [a], by simp, h2, h3⟩

/-- **`error`, whole import**: if the arrivals `pre` collide neither with the stored ids nor with one
another and the key of the next arrival `a` is held (by a stored row or by an arrival of `pre`), then
* the import of the prefix `pre` succeeds and stores exactly `pre` (as for every strategy);
* the step for `a`, taken in that state, fails with `ValueError`;
* the whole import fails with `ValueError` whatever follows `a` (`post` is arbitrary: nothing is required of it). -/
theorem Imp.error_fold (hs : I.cfg.strategy = .error) (pre : List α) (a : α) (post : List α) (db : Db) (auto : Dict Nat)
    (hT : I.Table (pre ++ [a])) (hnd : (idsOf db ++ pre.map I.key).Nodup)
    (hc : I.key a ∈ idsOf db ++ pre.map I.key) :
    ∃ db1, pre.foldlM I.step (db, auto) = .ok (db1, auto) ∧
      db1.features = db.features ++ pre.map I.rowOf ∧
      (∀ r, r ∈ db1.relations ↔ r ∈ db.relations ∨ ∃ b ∈ pre, r ∈ I.link b (I.key b)) ∧
      SameOther db db1 ∧
      I.step (db1, auto) a = .error .value ∧
      (pre ++ a :: post).foldlM I.step (db, auto) = .error .value := by
  obtain ⟨db1, hrun, hf, hr, ho⟩ := I.no_collision_fold pre db auto
    (hT.sub (fun x hx => List.mem_append_left _ hx)) hnd
  have hmem : I.key a ∈ idsOf db1 := by
    have : idsOf db1 = idsOf db ++ pre.map I.key := by
      simp only [idsOf, hf, List.map_append, List.map_map]; rfl
    rw [this]; exact hc
  have hstep := I.istep_error hs (hT a (by simp) db1 auto) hmem
  exact ⟨db1, hrun, hf, hr, ho, hstep, foldlM_append_error _ pre post a _ _ _ hrun hstep⟩

/-! ### `warning` -/

theorem Imp.warning_fold (hs : I.cfg.strategy = .warning) :
    ∀ (as : List α) (db : Db) (auto : Dict Nat), I.Table as →
      ∃ db', as.foldlM I.step (db, auto) = .ok (db', auto) ∧
        db'.features = db.features ++ (firstsBy I.key (idsOf db) as).map I.rowOf ∧
        (∀ r, r ∈ db'.relations ↔
          r ∈ db.relations ∨ ∃ a ∈ firstsBy I.key (idsOf db) as, r ∈ I.link a (I.key a)) ∧
        SameOther db db' := by
  intro as
  induction as with
  | nil => intro db auto _; exact ⟨db, rfl, by simp [firstsBy], by simp [firstsBy], SameOther.refl db⟩
  | cons f fs ih =>
    intro db auto hT
    by_cases hmem : I.key f ∈ idsOf db
    · obtain ⟨db', hrun, hf', hr', ho'⟩ := ih db auto hT.tail
      refine ⟨db', ?_, ?_, ?_, ho'⟩
      · rw [foldlM_cons_ok _ _ _ _ _ (I.istep_warning hs (hT f (by simp) db auto) hmem)]; exact hrun
      · simp only [firstsBy, if_pos hmem]; exact hf'
      · simp only [firstsBy, if_pos hmem]; exact hr'
    · have hstep := I.istep_fresh (hT f (by simp) db auto) hmem
      obtain ⟨hf1, hr1, ho1⟩ := I.attach_facts db (db.features ++ [I.rowOf f]) (I.key f) f
      generalize I.attach { db with features := db.features ++ [I.rowOf f] } (some (I.key f)) f = db1 at *
      have hids : idsOf db1 = idsOf db ++ [I.key f] := by simp [idsOf, hf1, Imp.rowOf]
      have hcongr : firstsBy I.key (idsOf db1) fs = firstsBy I.key (I.key f :: idsOf db) fs :=
        firstsBy_congr _ _ _ fs (fun k => by rw [hids]; simp [or_comm])
      obtain ⟨db', hrun, hf', hr', ho'⟩ := ih db1 auto hT.tail
      refine ⟨db', ?_, ?_, ?_, ho1.trans ho'⟩
      · rw [foldlM_cons_ok _ _ _ _ _ hstep]; exact hrun
      · simp only [firstsBy, if_neg hmem]
        rw [hf', hf1, hcongr]; simp
      · intro r
        simp only [firstsBy, if_neg hmem]
        rw [hr', hr1, hcongr]
        simp only [List.mem_cons, exists_eq_or_imp]
        exact or_assoc

/-! ### `replace` -/

theorem Imp.replace_fold (hs : I.cfg.strategy = .replace) :
    ∀ (as : List α) (db : Db) (auto : Dict Nat), I.Table as →
      ∃ db', as.foldlM I.step (db, auto) = .ok (db', auto) ∧
        db'.features = (db.features ++ (firstsBy I.key (idsOf db) as).map I.rowOf).map (replacedBy I.feat I.key as) ∧
        (∀ r, r ∈ db'.relations ↔ r ∈ db.relations ∨ ∃ a ∈ as, r ∈ I.link a (I.key a)) ∧
        SameOther db db' := by
  intro as
  induction as with
  | nil =>
    intro db auto _
    refine ⟨db, rfl, ?_, by simp, SameOther.refl db⟩
    simp only [firstsBy, List.map_nil, List.append_nil]
    rw [List.map_congr_left (g := fun x => x)]
    · simp
    · intro x _; rfl
  | cons f fs ih =>
    intro db auto hT
    by_cases hmem : I.key f ∈ idsOf db
    · have hstep := I.istep_replace hs (hT f (by simp) db auto) hmem
      obtain ⟨hf1, hr1, ho1⟩ := I.attach_facts db
        (db.features.map (fun x : Row => if x.id = I.key f then I.rowOf f else x)) (I.key f) f
      generalize I.attach { db with features := (db.features.map
        (fun x => if x.id = I.key f then I.rowOf f else x)) } (some (I.key f)) f = db1 at *
      have hids : idsOf db1 = idsOf db := by
        simp only [idsOf, hf1, List.map_map]
        apply List.map_congr_left
        intro x _
        simp only [Function.comp]
        split
        · rename_i h; rw [h]; rfl
        · rfl
      obtain ⟨db', hrun, hf', hr', ho'⟩ := ih db1 auto hT.tail
      refine ⟨db', ?_, ?_, ?_, ho1.trans ho'⟩
      · rw [foldlM_cons_ok _ _ _ _ _ hstep]; exact hrun
      · simp only [firstsBy, if_pos hmem]
        rw [hf', hf1, hids, List.map_append, List.map_append, List.map_map]
        congr 1
        · apply List.map_congr_left
          intro x _
          simp only [Function.comp]
          by_cases hx : x.id = I.key f
          · rw [if_pos hx, replacedBy_cons_eq I.feat I.key f fs x hx]; rfl
          · rw [if_neg hx, replacedBy_cons_ne I.feat I.key f fs x hx]
        · apply List.map_congr_left
          intro x hx
          obtain ⟨g, hg, rfl⟩ := List.mem_map.mp hx
          symm
          apply replacedBy_cons_ne
          intro e
          exact (firstsBy_keys I.key (idsOf db) fs).2 g hg (by rw [show I.key g = I.key f from e]; exact hmem)
      · intro r
        rw [hr', hr1]
        simp only [List.mem_cons, exists_eq_or_imp]
        exact or_assoc
    · have hstep := I.istep_fresh (hT f (by simp) db auto) hmem
      obtain ⟨hf1, hr1, ho1⟩ := I.attach_facts db (db.features ++ [I.rowOf f]) (I.key f) f
      generalize I.attach { db with features := db.features ++ [I.rowOf f] } (some (I.key f)) f = db1 at *
      have hids : idsOf db1 = idsOf db ++ [I.key f] := by simp [idsOf, hf1, Imp.rowOf]
      have hcongr : firstsBy I.key (idsOf db1) fs = firstsBy I.key (I.key f :: idsOf db) fs :=
        firstsBy_congr _ _ _ fs (fun k => by rw [hids]; simp [or_comm])
      obtain ⟨db', hrun, hf', hr', ho'⟩ := ih db1 auto hT.tail
      refine ⟨db', ?_, ?_, ?_, ho1.trans ho'⟩
      · rw [foldlM_cons_ok _ _ _ _ _ hstep]; exact hrun
      · simp only [firstsBy, if_neg hmem]
        rw [hf', hf1, hcongr]
        simp only [List.map_append, List.map_cons, List.append_assoc, List.singleton_append]
        congr 1
        · apply List.map_congr_left
          intro x hx
          symm
          apply replacedBy_cons_ne
          intro e
          exact hmem (by rw [← e]; exact List.mem_map.mpr ⟨x, hx, rfl⟩)
        · congr 1
          · exact (replacedBy_cons_eq I.feat I.key f fs (I.rowOf f) rfl).symm
          · apply List.map_congr_left
            intro x hx
            obtain ⟨g, hg, rfl⟩ := List.mem_map.mp hx
            symm
            apply replacedBy_cons_ne
            intro e
            exact (firstsBy_keys I.key (I.key f :: idsOf db) fs).2 g hg
              (by rw [show I.key g = I.key f from e]; simp)
      · intro r
        rw [hr', hr1]
        simp only [List.mem_cons, exists_eq_or_imp]
        exact or_assoc

/-! ### `create_unique` -/

theorem Imp.create_unique_fold (hs : I.cfg.strategy = .createUnique) :
    ∀ (as : List α) (db : Db) (auto : Dict Nat), I.Table as → FreshBy I.key (idsOf db) auto as →
      ∃ db' auto', as.foldlM I.step (db, auto) = .ok (db', auto') ∧
        db'.features = db.features ++
          (placementsBy I.key (idsOf db) auto [] as).map (fun p => storedRow (I.feat p.1) p.2) ∧
        (∀ r, r ∈ db'.relations ↔
          r ∈ db.relations ∨ ∃ p ∈ placementsBy I.key (idsOf db) auto [] as, r ∈ I.link p.1 p.2) ∧
        (∀ k, (auto'.get? k).getD 0 = (auto.get? k).getD 0 + (priorCountBy I.key (idsOf db) as k - 1)) ∧
        SameOther db db' := by
  intro as
  induction as with
  | nil =>
    intro db auto _ _
    refine ⟨db, auto, rfl, by simp [placementsBy], by simp [placementsBy], fun k => ?_, SameOther.refl db⟩
    unfold priorCountBy; split <;> simp
  | cons f fs ih =>
    intro db auto hT hF
    have hFtail : ∀ g ∈ fs, ∀ n, (auto.get? (I.key g)).getD 0 < n →
        autoId (I.key g) n ∉ idsOf db ∧ ∀ g' ∈ f :: fs, I.key g' ≠ autoId (I.key g) n :=
      fun g hg => hF g (List.mem_cons_of_mem _ hg)
    by_cases hmem : I.key f ∈ idsOf db
    · -- collision: filed under the next generated id
      have hfree : nextId auto (I.key f) ∉ idsOf db := (hF f (by simp) _ (Nat.lt_succ_self _)).1
      have hstep := I.istep_unique hs (hT f (by simp) db auto) hmem hfree
      obtain ⟨hf1, hr1, ho1⟩ := I.attach_facts db (db.features ++ [storedRow (I.feat f) (nextId auto (I.key f))])
        (nextId auto (I.key f)) f
      generalize I.attach { db with features := db.features ++ [storedRow (I.feat f) (nextId auto (I.key f))] }
        (some (nextId auto (I.key f))) f = db1 at *
      have hids : idsOf db1 = idsOf db ++ [nextId auto (I.key f)] := by simp [idsOf, hf1]
      have hbump_self : ((bump auto (I.key f)).get? (I.key f)).getD 0 = (auto.get? (I.key f)).getD 0 + 1 := by
        simp [bump, C04.Dict.get?_set_self]
      have hbump_ne : ∀ k, k ≠ I.key f → (bump auto (I.key f)).get? k = auto.get? k :=
        fun k hk => C04.Dict.get?_set_ne _ _ _ _ hk
      have hkey_ne : ∀ g ∈ f :: fs, I.key g ≠ nextId auto (I.key f) :=
        (hF f (by simp) _ (Nat.lt_succ_self _)).2
      have hF1 : FreshBy I.key (idsOf db1) (bump auto (I.key f)) fs := by
        intro g hg n hn
        by_cases hgk : I.key g = I.key f
        · rw [hgk] at hn ⊢
          rw [hbump_self] at hn
          obtain ⟨h1, h2⟩ := hF f (by simp) n (by omega)
          refine ⟨?_, fun g' hg' => h2 g' (List.mem_cons_of_mem _ hg')⟩
          rw [hids, List.mem_append, List.mem_singleton]
          rintro (h | h)
          · exact h1 h
          · have := (autoId_inj _ _ _ _ h).2; omega
        · rw [hbump_ne _ hgk] at hn
          obtain ⟨h1, h2⟩ := hFtail g hg n hn
          refine ⟨?_, fun g' hg' => h2 g' (List.mem_cons_of_mem _ hg')⟩
          rw [hids, List.mem_append, List.mem_singleton]
          rintro (h | h)
          · exact h1 h
          · exact hgk (autoId_inj _ _ _ _ h).1
      have hshift : ∀ pre, ∀ g ∈ fs,
          uniqueIdBy I.key (idsOf db1) (bump auto (I.key f)) pre (I.key g) =
            uniqueIdBy I.key (idsOf db) auto (f :: pre) (I.key g) := by
        intro pre g hg
        have hne := hkey_ne g (List.mem_cons_of_mem _ hg)
        have hpc : priorCountBy I.key (idsOf db1) pre (I.key g) = priorCountBy I.key (idsOf db) pre (I.key g) := by
          unfold priorCountBy
          rw [hids]
          simp only [List.mem_append, List.mem_singleton, hne, or_false]
        unfold uniqueIdBy
        rw [priorCountBy_cons, hpc]
        by_cases hgk : I.key f = I.key g
        · rw [if_pos hgk]
          have hpos : priorCountBy I.key (idsOf db) pre (I.key g) ≠ 0 := by
            unfold priorCountBy; rw [← hgk, if_pos hmem]; omega
          rw [if_neg hpos, if_neg (by omega), ← hgk, hbump_self]
          congr 1; omega
        · rw [if_neg hgk, hbump_ne _ (fun e => hgk e.symm)]
          rfl
      obtain ⟨db', auto', hrun, hf', hr', hc', ho'⟩ := ih db1 (bump auto (I.key f)) hT.tail hF1
      have hpl := placementsBy_shift I.key (idsOf db) (idsOf db1) auto (bump auto (I.key f)) f fs hshift []
      have hu : uniqueIdBy I.key (idsOf db) auto [] (I.key f) = nextId auto (I.key f) := by
        unfold uniqueIdBy priorCountBy nextId
        simp [hmem]
      refine ⟨db', auto', ?_, ?_, ?_, ?_, ho1.trans ho'⟩
      · rw [foldlM_cons_ok _ _ _ _ _ hstep]; exact hrun
      · rw [hf', hf1, hpl]
        simp only [placementsBy, hu, List.nil_append, List.map_cons, List.append_assoc, List.singleton_append]
      · intro r
        rw [hr', hr1, hpl]
        simp only [placementsBy, hu, List.nil_append, List.mem_cons, exists_eq_or_imp]
        exact or_assoc
      · intro k
        rw [hc' k, priorCountBy_cons]
        by_cases hk : k = I.key f
        · subst hk
          rw [hbump_self, if_pos rfl]
          have hpc : priorCountBy I.key (idsOf db1) fs (I.key f) = priorCountBy I.key (idsOf db) fs (I.key f) := by
            unfold priorCountBy; rw [hids]
            simp only [List.mem_append, List.mem_singleton, hkey_ne f (by simp), or_false]
          have hpos : priorCountBy I.key (idsOf db) fs (I.key f) ≠ 0 := by
            unfold priorCountBy; rw [if_pos hmem]; omega
          rw [hpc]; omega
        · rw [hbump_ne k hk, if_neg (fun e => hk e.symm)]
          by_cases hn : k = nextId auto (I.key f)
          · subst hn
            have h0 : (fs.filter (fun g => I.key g = nextId auto (I.key f))) = [] := by
              rw [List.filter_eq_nil_iff]
              intro g hg; simpa using hkey_ne g (List.mem_cons_of_mem _ hg)
            unfold priorCountBy
            rw [h0, hids, if_neg hfree]
            simp
          · have hpc : priorCountBy I.key (idsOf db1) fs k = priorCountBy I.key (idsOf db) fs k := by
              unfold priorCountBy; rw [hids]
              simp only [List.mem_append, List.mem_singleton, hn, or_false]
            rw [hpc]; simp
    · -- no collision: filed under its own key
      have hstep := I.istep_fresh (hT f (by simp) db auto) hmem
      obtain ⟨hf1, hr1, ho1⟩ := I.attach_facts db (db.features ++ [I.rowOf f]) (I.key f) f
      generalize I.attach { db with features := db.features ++ [I.rowOf f] } (some (I.key f)) f = db1 at *
      have hids : idsOf db1 = idsOf db ++ [I.key f] := by simp [idsOf, hf1, Imp.rowOf]
      have hF1 : FreshBy I.key (idsOf db1) auto fs := by
        intro g hg n hn
        obtain ⟨h1, h2⟩ := hFtail g hg n hn
        refine ⟨?_, fun g' hg' => h2 g' (List.mem_cons_of_mem _ hg')⟩
        rw [hids, List.mem_append, List.mem_singleton]
        rintro (h | h)
        · exact h1 h
        · exact h2 f (by simp) h.symm
      have hpc : ∀ pre k, priorCountBy I.key (idsOf db1) pre k = priorCountBy I.key (idsOf db) (f :: pre) k := by
        intro pre k
        rw [priorCountBy_cons]
        unfold priorCountBy
        rw [hids]
        by_cases hk : I.key f = k
        · subst hk
          simp [hmem]
        · have hk' : ¬ k = I.key f := fun e => hk e.symm
          simp [hk, hk']
      have hshift : ∀ pre, ∀ g ∈ fs,
          uniqueIdBy I.key (idsOf db1) auto pre (I.key g) = uniqueIdBy I.key (idsOf db) auto (f :: pre) (I.key g) := by
        intro pre g _
        unfold uniqueIdBy
        rw [hpc]
      obtain ⟨db', auto', hrun, hf', hr', hc', ho'⟩ := ih db1 auto hT.tail hF1
      have hpl := placementsBy_shift I.key (idsOf db) (idsOf db1) auto auto f fs hshift []
      have hu : uniqueIdBy I.key (idsOf db) auto [] (I.key f) = I.key f := by
        unfold uniqueIdBy priorCountBy
        simp [hmem]
      refine ⟨db', auto', ?_, ?_, ?_, ?_, ho1.trans ho'⟩
      · rw [foldlM_cons_ok _ _ _ _ _ hstep]; exact hrun
      · rw [hf', hf1, hpl]
        simp only [placementsBy, hu, List.nil_append, List.map_cons, List.append_assoc, List.singleton_append]
        rfl
      · intro r
        rw [hr', hr1, hpl]
        simp only [placementsBy, hu, List.nil_append, List.mem_cons, exists_eq_or_imp]
        exact or_assoc
      · intro k
        rw [hc' k, hpc]

/-- the indexed reading of `create_unique_fold`: the `i`-th arrival sits at position `|old rows| + i`, under
`uniqueIdBy … (as.take i) (key as[i])` -/
theorem Imp.create_unique_indexed (hs : I.cfg.strategy = .createUnique)
    (as : List α) (db : Db) (auto : Dict Nat) (hT : I.Table as) (hF : FreshBy I.key (idsOf db) auto as) :
    ∃ db' auto', as.foldlM I.step (db, auto) = .ok (db', auto') ∧
      db'.features.length = db.features.length + as.length ∧
      (∀ i, i < db.features.length → db'.features[i]? = db.features[i]?) ∧
      (∀ i (hi : i < as.length), db'.features[db.features.length + i]? =
          some (storedRow (I.feat as[i]) (uniqueIdBy I.key (idsOf db) auto (as.take i) (I.key as[i])))) ∧
      (∀ r, r ∈ db'.relations ↔ r ∈ db.relations ∨
          ∃ i, ∃ hi : i < as.length, r ∈ I.link as[i] (uniqueIdBy I.key (idsOf db) auto (as.take i) (I.key as[i]))) ∧
      (∀ k, (auto'.get? k).getD 0 = (auto.get? k).getD 0 + (priorCountBy I.key (idsOf db) as k - 1)) ∧
      SameOther db db' := by
  obtain ⟨db', auto', hrun, hf, hr, hc, ho⟩ := I.create_unique_fold hs as db auto hT hF
  have hget : ∀ i (hi : i < as.length), (placementsBy I.key (idsOf db) auto [] as)[i]? =
      some (as[i], uniqueIdBy I.key (idsOf db) auto (as.take i) (I.key as[i])) := by
    intro i hi
    rw [placementsBy_getElem?, List.getElem?_eq_getElem hi]
    simp
  refine ⟨db', auto', hrun, ?_, ?_, ?_, ?_, hc, ho⟩
  · rw [hf]; simp [placementsBy_length]
  · intro i hi
    rw [hf, List.getElem?_append_left hi]
  · intro i hi
    rw [hf, List.getElem?_append_right (by omega)]
    simp only [Nat.add_sub_cancel_left, List.getElem?_map, hget i hi, Option.map_some]
  · intro r
    rw [hr]
    constructor
    · rintro (h | ⟨p, hp, hl⟩)
      · exact Or.inl h
      · obtain ⟨i, hi, hpi⟩ := List.getElem_of_mem hp
        have hi' : i < as.length := by rw [placementsBy_length] at hi; exact hi
        have := hget i hi'
        rw [List.getElem?_eq_getElem hi, Option.some.injEq, hpi] at this
        subst this
        exact Or.inr ⟨i, hi', hl⟩
    · rintro (h | ⟨i, hi, hl⟩)
      · exact Or.inl h
      · exact Or.inr ⟨_, List.mem_of_getElem? (hget i hi), hl⟩

end generic

end GffProofs.C05
