/-
  C10c — helper lemmas, part 3: `_update_relations` on an open database that satisfies the invariant, as a
  whole; the domain is closed under prefixes.
-/
import GffProofs.Lemmas.C10cAux2

namespace GffProofs.C10c
open GffModel GffModel.Create GffModel.Interface
open GffProofs.C03
open GffProofs.C04 (autoId incr_spec)

section master
variable {cfg : Cfg} {fs : List Feature} (hc : CfgOk cfg) (h : GtfOk cfg fs) (he : ExtOk cfg fs)
  {db : Db} {auto : Dict Nat} (inv : GtfDbInv cfg fs db auto)
include hc h he inv

/-- membership in the derived list of the open database (C03's `mem_derivedList`, transferred) -/
theorem mem_derivedListG (kf : Str × Feature) :
    kf ∈ derivedList cfg db ↔
      (cfg.disableTranscripts = false ∧ ∃ t g, TOwns cfg fs t g ∧ kf = (t, mkT cfg db t g)) ∨
      (cfg.disableGenes = false ∧ ∃ g, GOwns cfg fs g ∧ kf = (g, mkG cfg db g)) := by
  obtain ⟨auto0, invL⟩ := lineView_popInv hc h inv
  rw [derivedList_view hc h inv, mem_derivedList hc h he invL]
  have e1 : ∀ t g, mkT cfg (lineView cfg fs db) t g = mkT cfg db t g := fun t g => (mkT_view hc h inv t g).symm
  have e2 : ∀ g, mkG cfg (lineView cfg fs db) g = mkG cfg db g := fun g => (mkG_view hc h inv g).symm
  simp only [e1, e2]

theorem derivedList_nodupG : ((derivedList cfg db).map (·.1)).Nodup := by
  obtain ⟨auto0, invL⟩ := lineView_popInv hc h inv
  rw [derivedList_view hc h inv]
  exact derivedList_nodup hc h he invL

theorem isTranscriptRow_mkTG {t g : Str} (ho : TOwns cfg fs t g) :
    IsTranscriptRow cfg fs t g (lineRow (mkT cfg db t g) t) := by
  obtain ⟨auto0, invL⟩ := lineView_popInv hc h inv
  rw [mkT_view hc h inv]
  exact isTranscriptRow_mkT hc h he invL ho

theorem isGeneRow_mkGG {g : Str} (ho : GOwns cfg fs g) : IsGeneRow cfg fs g (lineRow (mkG cfg db g) g) := by
  obtain ⟨auto0, invL⟩ := lineView_popInv hc h inv
  rw [mkG_view hc h inv]
  exact isGeneRow_mkG hc h he invL ho

omit hc h he in
/-- the ids of explicit lines are stored -/
theorem explicit_stored {k : Str} (hx : HasExplicit cfg fs k) : k ∈ db.features.map (·.id) := by
  obtain ⟨fk, hfk, _, rfl⟩ := hx
  exact List.mem_map.mpr ⟨_, inv.linesIn fk hfk, rfl⟩

/-- **the rows the second pass appends**: the derived rows of the whole history — extents over ALL lines —
whose id is not stored yet -/
theorem mem_derivedRowsG (row : Row) :
    row ∈ derivedRows cfg db ↔ DerivedSpec cfg fs row ∧ row.id ∉ db.features.map (·.id) := by
  unfold derivedRows
  have hnc : ∀ k : Str, (!(db.features.map (·.id)).contains k) = true ↔ k ∉ db.features.map (·.id) := by
    intro k; rw [Bool.not_eq_true', ← Bool.not_eq_true, List.contains_iff_mem]
  constructor
  · intro hrow
    obtain ⟨kf, hkf, rfl⟩ := List.mem_map.mp hrow
    obtain ⟨hkf, hfresh⟩ := List.mem_filter.mp hkf
    rw [hnc] at hfresh
    rcases (mem_derivedListG hc h he inv kf).mp hkf with ⟨h1, t, g, ho, rfl⟩ | ⟨h1, g, ho, rfl⟩
    · refine ⟨Or.inl ⟨h1, t, g, ho, fun hx => hfresh (explicit_stored inv hx),
        isTranscriptRow_mkTG hc h he inv ho⟩, hfresh⟩
    · refine ⟨Or.inr ⟨h1, g, ho, fun hx => hfresh (explicit_stored inv hx),
        isGeneRow_mkGG hc h he inv ho⟩, hfresh⟩
  · rintro ⟨(⟨h1, t, g, ho, _, hr⟩ | ⟨h1, g, ho, _, hr⟩), hfresh⟩
    · have e : row = lineRow (mkT cfg db t g) t :=
        isDerivedRow_unique (subOfT_ne_nil ho) hr (isTranscriptRow_mkTG hc h he inv ho)
      subst e
      exact List.mem_map.mpr ⟨(t, mkT cfg db t g), List.mem_filter.mpr
        ⟨(mem_derivedListG hc h he inv _).mpr (Or.inl ⟨h1, t, g, ho, rfl⟩), (hnc t).mpr hfresh⟩, rfl⟩
    · have e : row = lineRow (mkG cfg db g) g :=
        isDerivedRow_unique (subOfG_ne_nil ho) hr (isGeneRow_mkGG hc h he inv ho)
      subst e
      exact List.mem_map.mpr ⟨(g, mkG cfg db g), List.mem_filter.mpr
        ⟨(mem_derivedListG hc h he inv _).mpr (Or.inr ⟨h1, g, ho, rfl⟩), (hnc g).mpr hfresh⟩, rfl⟩

theorem derivedRows_ids_nodup : ((db.features ++ derivedRows cfg db).map (·.id)).Nodup := by
  rw [List.map_append, List.nodup_append]
  refine ⟨inv.idsNodup, ?_, ?_⟩
  · unfold derivedRows
    rw [List.map_map]
    have : ((fun (x : Row) => x.id) ∘ fun (kf : Str × Feature) => lineRow kf.2 kf.1) = (·.1) := by
      funext kf; rfl
    rw [this]
    exact (List.filter_sublist.map _).nodup (derivedList_nodupG hc h he inv)
  · intro a ha b hb e
    subst e
    obtain ⟨row, hrow, hre⟩ := List.mem_map.mp hb
    exact ((mem_derivedRowsG hc h he inv row).mp hrow).2 (hre ▸ ha)

omit hc h he in
/-- every id that can be stored -/
theorem ids_in_allIds : ∀ r ∈ db.features, r.id ∈ allIds cfg fs := by
  intro r hr
  rcases inv.rows r hr with ⟨fk, hfk, rfl⟩ | hst
  · have : fk.2 ∈ (keyed cfg fs).map (·.2) := List.mem_map.mpr ⟨fk, hfk, rfl⟩
    simp [allIds, lineRow_id, this]
  · rcases staleDerived_id hst with h1 | h1 <;> simp [allIds, h1]

/-- **`_update_relations` of an `update`**: the stored rows (lines AND derived rows) are left exactly as they
are; the derived rows of ids not stored yet are appended; the relation table is not touched; the only other
effects are `duplicates` entries `(<id>, <id>_<n>)` and counters named after gene / transcript ids. -/
theorem updateRelationsGtf_gInv (hm : MergeOk cfg fs) (hs : SuffixOk cfg fs) :
    ∃ dups' auto', updateRelationsGtf cfg db auto = .ok (st2 db (derivedRows cfg db) dups', auto') ∧
      (∀ on ∈ dups', (on.1 ∈ tids cfg fs ∨ on.1 ∈ gids cfg fs) ∧ ∃ n, on.2 = autoId on.1 n) ∧
      (∀ ft, ft ∉ tids cfg fs → ft ∉ gids cfg fs → Dict.get? auto' ft = Dict.get? auto ft) := by
  obtain ⟨auto0, invL⟩ := lineView_popInv hc h inv
  rw [updateRelationsGtf_eq]
  by_cases hflags : (cfg.disableGenes && cfg.disableTranscripts) = true
  · rw [if_pos hflags]
    simp only [Bool.and_eq_true] at hflags
    refine ⟨db.duplicates, auto, ?_, inv.dups, fun _ _ _ => rfl⟩
    have : derivedRows cfg db = [] := by
      unfold derivedRows derivedList
      rw [hflags.1, hflags.2, specD_disabled]; rfl
    rw [this, st2_self]
  · rw [if_neg hflags]
    have hidT : ∀ kf ∈ derivedList cfg db, kf.1 ∈ tids cfg fs ∨ kf.1 ∈ gids cfg fs := by
      intro kf hkf
      rcases (mem_derivedListG hc h he inv kf).mp hkf with ⟨_, t, g, ⟨f, hf, _, htid, _⟩, rfl⟩ |
        ⟨_, g, ⟨t, f, hf, _, _, hgid⟩, rfl⟩
      · exact Or.inl (mem_tids hf htid)
      · exact Or.inr (mem_gids hf hgid)
    -- first pass
    obtain ⟨last', h1⟩ := foldlM_step1 cfg db (sortedPairs cfg db)
      (by
        intro _ tg htg
        rw [sortedPairs_view hc h inv] at htg
        obtain ⟨f, hf, hft, htid, _⟩ := (mem_sortedPairs hc h he invL tg).mp htg
        obtain ⟨s, e, st, sq, hx, _⟩ := extent_T hc h he invL ⟨f, hf, hft, htid⟩
        exact ⟨s, e, st, sq, by rw [extent_view hc h inv]; exact hx⟩)
      (by
        intro _ tg htg
        rw [sortedPairs_view hc h inv] at htg
        obtain ⟨f, hf, hft, _, hgid⟩ := (mem_sortedPairs hc h he invL tg).mp htg
        obtain ⟨s, e, st, sq, hx, _⟩ := extent_G hc h he invL ⟨f, hf, hft, hgid⟩
        exact ⟨s, e, st, sq, by rw [extent_view hc h inv]; exact hx⟩)
      [] none
    simp only [bind, Except.bind, h1, List.nil_append]
    -- second pass
    have h2 := foldlM_step2G cfg db (allIds cfg fs) inv.idsNodup (derivedList cfg db)
      (by
        intro kf hkf auto
        rcases (mem_derivedListG hc h he inv kf).mp hkf with ⟨_, t, g, _, rfl⟩ | ⟨_, g, _, rfl⟩
        · exact idHandler_tr cfg hc auto _ t rfl (by simp [mkT, derivedOf, Dict.get?])
        · exact idHandler_gene cfg hc auto _ g rfl (by simp [mkG, derivedOf, Dict.get?]))
      (derivedList_nodupG hc h he inv)
      (ids_in_allIds inv)
      (by
        intro kf hkf
        rcases hidT kf hkf with h1 | h1 <;> simp [allIds, h1])
      (by
        intro kf hkf ex hex
        obtain ⟨hexm, hexid⟩ := getRow_mem hex
        have hidk := hidT kf hkf
        refine ⟨?_, ?_⟩
        · rcases inv.rows ex hexm with ⟨fk', hfk', rfl⟩ | hst
          · -- an explicit line
            left
            simp only [lineRow_id] at hexid
            have hex' : explicit fk'.1 = true := explicit_of_id_key h hfk' (hexid ▸ hidk)
            have hsrc : kf.2.source = derivedSrc := by
              rcases (mem_derivedListG hc h he inv kf).mp hkf with ⟨_, t, g, _, rfl⟩ | ⟨_, g, _, rfl⟩ <;> rfl
            refine ⟨?_, hm.srcCompared ⟨fk'.1, mem_of_mem_keyed hfk', hex'⟩⟩
            rw [hsrc]; exact hm.srcNotDerived fk'.1 (mem_of_mem_keyed hfk') hex'
          · -- the id's own derived row
            right
            rcases (mem_derivedListG hc h he inv kf).mp hkf with ⟨_, t, g, ho, rfl⟩ | ⟨_, g, ho, rfl⟩
            · rcases hst with ⟨t', g', fs', hp, ho', hr⟩ | ⟨g', fs', hp, ⟨t', f', hf', _, _, hgid'⟩, hr⟩
              · have e : t' = t := by rw [← hr.id]; exact hexid
                subst e
                obtain ⟨f1, hf1, _, ht1, hg1⟩ := ho
                obtain ⟨f2, hf2, _, ht2, hg2⟩ := ho'
                have eg : g = g' := he.oneGene f1 hf1 f2 (mem_of_prefix hp hf2) t' g g' ht1 ht2 hg1 hg2
                subst eg
                exact mergedWith_self2 _ _ _ _ _ _ hc.keysNe rfl hr.attrs
              · exfalso
                have e : g' = t := by rw [← hr.id]; exact hexid
                subst e
                obtain ⟨f1, hf1, _, ht1, _⟩ := ho
                exact h.tgDisjoint _ (mem_tids hf1 ht1) (mem_gids (mem_of_prefix hp hf') hgid')
            · rcases hst with ⟨t', g', fs', hp, ⟨f', hf', _, htid', _⟩, hr⟩ | ⟨g', fs', hp, _, hr⟩
              · exfalso
                have e : t' = g := by rw [← hr.id]; exact hexid
                subst e
                obtain ⟨t1, f1, hf1, _, _, hg1⟩ := ho
                exact h.tgDisjoint _ (mem_tids (mem_of_prefix hp hf') htid') (mem_gids hf1 hg1)
              · have e : g' = g := by rw [← hr.id]; exact hexid
                subst e
                exact mergedWith_self1 _ _ _ _ rfl hr.attrs
        · intro n
          obtain ⟨h1, h2, h3⟩ := hs kf.1 hidk n
          simp only [allIds, List.mem_append, not_or]
          exact ⟨⟨h1, h2⟩, h3⟩)
      [] db.duplicates auto (by intro r hr; cases hr)
      (by
        intro on hon
        obtain ⟨hid, n, hn⟩ := inv.dups on hon
        obtain ⟨h1, h2, h3⟩ := hs on.1 hid n
        rw [hn]
        simp only [allIds, List.mem_append, not_or]
        exact ⟨⟨h1, h2⟩, h3⟩)
    obtain ⟨dups', auto', h2, hd', ha'⟩ := h2
    rw [st2_self] at h2
    refine ⟨dups', auto', ?_, ?_, ?_⟩
    · simp only [List.nil_append] at h2
      exact h2
    · intro on hon
      rcases hd' on hon with h1 | ⟨kf, hkf, n, rfl⟩
      · exact inv.dups on h1
      · exact ⟨hidT kf hkf, n, rfl⟩
    · intro ft h3 h4
      apply ha' ft
      intro hin
      obtain ⟨kf, hkf, rfl⟩ := List.mem_map.mp hin
      rcases hidT kf hkf with h5 | h5
      · exact h3 h5
      · exact h4 h5

/-- the invariant after `_update_relations` -/
theorem gInv_after_updateRelations (dups' : List (Str × Str)) (auto' : Dict Nat)
    (hd : ∀ on ∈ dups', (on.1 ∈ tids cfg fs ∨ on.1 ∈ gids cfg fs) ∧ ∃ n, on.2 = autoId on.1 n)
    (ha : ∀ ft, ft ∉ tids cfg fs → ft ∉ gids cfg fs → Dict.get? auto' ft = Dict.get? auto ft) :
    GtfDbInv cfg fs (st2 db (derivedRows cfg db) dups') auto' := by
  refine ⟨?_, ?_, derivedRows_ids_nodup hc h he inv, inv.rels, inv.relsNodup, hd, ?_⟩
  · intro fk hfk
    exact List.mem_append_left _ (inv.linesIn fk hfk)
  · intro row hrow
    rcases List.mem_append.mp hrow with hrow | hrow
    · exact inv.rows row hrow
    · right
      rcases ((mem_derivedRowsG hc h he inv row).mp hrow).1 with ⟨_, t, g, ho, _, hr⟩ | ⟨_, g, ho, _, hr⟩
      · exact Or.inl ⟨t, g, fs, List.prefix_refl _, ho, hr⟩
      · exact Or.inr ⟨g, fs, List.prefix_refl _, ho, hr⟩
  · intro ft h1 h2 h3 h4
    rw [ha ft h3 h4]
    exact inv.cnt ft h1 h2 h3 h4

end master

/-! ### the domain is closed under (non-empty) prefixes -/

theorem keyed_prefix (cfg : Cfg) (a b : List Feature) : keyed cfg a <+: keyed cfg (a ++ b) := by
  rw [keyed_append]; exact List.prefix_append _ _

theorem mem_keyed_append_left {cfg : Cfg} {a b : List Feature} {fk : Feature × Str} (h : fk ∈ keyed cfg a) :
    fk ∈ keyed cfg (a ++ b) := mem_of_prefix (keyed_prefix cfg a b) h

theorem gtfOk_prefix {cfg : Cfg} {a b : List Feature} (hne : a ≠ []) (h : GtfOk cfg (a ++ b)) : GtfOk cfg a where
  nonempty := hne
  geneLines := fun f hf => h.geneLines f (List.mem_append_left _ hf)
  trLines := fun f hf => h.trLines f (List.mem_append_left _ hf)
  explicitDistinct := by
    have := h.explicitDistinct
    rw [keyed_append] at this
    exact (List.pairwise_append.mp this).1
  idsNotAuto := by
    intro fk hfk hex
    have := h.idsNotAuto fk (mem_keyed_append_left hfk) hex
    rw [tids_append, gids_append] at this
    exact ⟨fun hin => this.1 (List.mem_append_left _ hin), fun hin => this.2 (List.mem_append_left _ hin)⟩
  tgDisjoint := by
    intro t ht hg
    refine h.tgDisjoint t ?_ ?_
    · rw [tids_append]; exact List.mem_append_left _ ht
    · rw [gids_append]; exact List.mem_append_left _ hg

theorem extOk_prefix {cfg : Cfg} {a b : List Feature} (h : ExtOk cfg (a ++ b)) : ExtOk cfg a where
  coords := fun f hf => h.coords f (List.mem_append_left _ hf)
  subGene := fun f hf => h.subGene f (List.mem_append_left _ hf)
  oneGene := fun f hf f' hf' => h.oneGene f (List.mem_append_left _ hf) f' (List.mem_append_left _ hf')
  tAgree := fun f hf f' hf' => h.tAgree f (List.mem_append_left _ hf) f' (List.mem_append_left _ hf')
  gAgree := fun f hf f' hf' => h.gAgree f (List.mem_append_left _ hf) f' (List.mem_append_left _ hf')

theorem mergeOk_prefix {cfg : Cfg} {a b : List Feature} (h : MergeOk cfg (a ++ b)) : MergeOk cfg a where
  srcCompared := fun ⟨f, hf, hex⟩ => h.srcCompared ⟨f, List.mem_append_left _ hf, hex⟩
  srcNotDerived := fun f hf => h.srcNotDerived f (List.mem_append_left _ hf)
  noSuffixed := by
    intro fk hfk hex n
    obtain ⟨h1, h2, h3⟩ := h.noSuffixed fk (mem_keyed_append_left hfk) hex n
    rw [tids_append] at h2
    rw [gids_append] at h3
    rw [keyed_append, List.map_append] at h1
    exact ⟨fun hin => h1 (List.mem_append_left _ hin), fun hin => h2 (List.mem_append_left _ hin),
      fun hin => h3 (List.mem_append_left _ hin)⟩

theorem suffixOk_prefix {cfg : Cfg} {a b : List Feature} (h : SuffixOk cfg (a ++ b)) : SuffixOk cfg a := by
  intro x hx n
  have hx' : x ∈ tids cfg (a ++ b) ∨ x ∈ gids cfg (a ++ b) := by
    rw [tids_append, gids_append]
    exact hx.imp (List.mem_append_left _) (List.mem_append_left _)
  obtain ⟨h1, h2, h3⟩ := h x hx' n
  rw [tids_append] at h2
  rw [gids_append] at h3
  rw [keyed_append, List.map_append] at h1
  exact ⟨fun hin => h1 (List.mem_append_left _ hin), fun hin => h2 (List.mem_append_left _ hin),
    fun hin => h3 (List.mem_append_left _ hin)⟩

/-! ### `LateOk` gives the freshness of the late explicit lines -/

/-- an explicit line arriving late whose id owned no exon before is not stored yet -/
theorem lateOk_fresh {cfg : Cfg} {pre post : List Feature} (hok : GtfOk cfg (pre ++ post)) {db : Db} {auto : Dict Nat}
    (inv : GtfDbInv cfg pre db auto) (hl : LateOk cfg pre post) :
    ∀ fk ∈ keyedAux cfg pre post, explicit fk.1 = true → fk.2 ∉ db.features.map (·.id) := by
  intro fk hfk hex hin
  obtain ⟨r, hr, hre⟩ := List.mem_map.mp hin
  have hnd := hok.keysNodup
  rw [keyed_append, List.map_append, List.nodup_append] at hnd
  rcases inv.rows r hr with ⟨fk0, hfk0, rfl⟩ | hst
  · exact hnd.2.2 fk0.2 (List.mem_map.mpr ⟨fk0, hfk0, rfl⟩) fk.2 (List.mem_map.mpr ⟨fk, hfk, rfl⟩) hre
  · obtain ⟨h1, h2⟩ := hl fk hfk hex
    rcases hst with ⟨t, g, fs', hp, ho, hrow⟩ | ⟨g, fs', hp, ho, hrow⟩
    · have e : t = fk.2 := by rw [← hrow.id]; exact hre
      subst e
      exact h1 g (tOwns_mono (fun x hx => mem_of_prefix hp hx) ho)
    · have e : g = fk.2 := by rw [← hrow.id]; exact hre
      subst e
      exact h2 (gOwns_mono (fun x hx => mem_of_prefix hp hx) ho)

end GffProofs.C10c
