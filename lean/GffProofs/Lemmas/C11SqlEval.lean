/-
  C11Sql — lemmas about binding and evaluation of the generated statements.
-/
import GffProofs.Props.C11SqlSpec
import GffProofs.Lemmas.C11SqlText
import GffProofs.Props.C11

namespace GffProofs.C11Sql
open GffModel GffModel.Sql GffModel.Interface

/-! ### positional binding -/

theorem bindCond_append (c : Cond) (a1 a2 : List SqlArg) (b : BCond) (rest : List SqlArg)
    (h : bindCond c a1 = some (b, rest)) : bindCond c (a1 ++ a2) = some (b, rest ++ a2) := by
  cases c with
  | eqP col =>
    cases a1 with
    | nil => simp [bindCond] at h
    | cons v t =>
      simp only [bindCond, Option.some.injEq, Prod.mk.injEq] at h
      obtain ⟨rfl, rfl⟩ := h
      rfl
  | cmpP col op =>
    cases a1 with
    | nil => simp [bindCond] at h
    | cons v t =>
      simp only [bindCond, Option.some.injEq, Prod.mk.injEq] at h
      obtain ⟨rfl, rfl⟩ := h
      rfl
  | inLits col lits =>
    simp only [bindCond, Option.some.injEq, Prod.mk.injEq] at h
    obtain ⟨rfl, rfl⟩ := h
    rfl
  | overlapLits hi lo =>
    simp only [bindCond, Option.some.injEq, Prod.mk.injEq] at h
    obtain ⟨rfl, rfl⟩ := h
    rfl
  | inP col n =>
    simp only [bindCond] at h
    split at h
    · rename_i hn
      simp only [Option.some.injEq, Prod.mk.injEq] at h
      obtain ⟨rfl, rfl⟩ := h
      simp only [bindCond, List.length_append]
      rw [if_pos (by omega), List.take_append_of_le_length hn, List.drop_append_of_le_length hn]
    · cases h
  | orEqP col n sp =>
    simp only [bindCond] at h
    split at h
    · rename_i hn
      simp only [Option.some.injEq, Prod.mk.injEq] at h
      obtain ⟨rfl, rfl⟩ := h
      simp only [bindCond, List.length_append]
      rw [if_pos (by omega), List.take_append_of_le_length hn, List.drop_append_of_le_length hn]
    · cases h

theorem bindConds_nil_args (args : List SqlArg) (bs : List BCond) (h : bindConds [] args = some bs) :
    args = [] ∧ bs = [] := by
  cases args with
  | nil => simp [bindConds] at h; exact ⟨rfl, h⟩
  | cons _ _ => simp [bindConds] at h

theorem bindConds_cons (c : Cond) (cs : List Cond) (args : List SqlArg) :
    bindConds (c :: cs) args =
      match bindCond c args with
      | none => none
      | some (b, rest) => (bindConds cs rest).map (b :: ·) := by
  cases args <;> rfl

theorem bindConds_append (c1 c2 : List Cond) (a1 a2 : List SqlArg) (b1 b2 : List BCond)
    (h1 : bindConds c1 a1 = some b1) (h2 : bindConds c2 a2 = some b2) :
    bindConds (c1 ++ c2) (a1 ++ a2) = some (b1 ++ b2) := by
  induction c1 generalizing a1 b1 with
  | nil =>
    obtain ⟨rfl, rfl⟩ := bindConds_nil_args a1 b1 h1
    simpa using h2
  | cons c cs ih =>
    rw [bindConds_cons] at h1
    cases hc : bindCond c a1 with
    | none => rw [hc] at h1; cases h1
    | some p =>
      obtain ⟨b, rest⟩ := p
      rw [hc] at h1
      simp only at h1
      cases hr : bindConds cs rest with
      | none => rw [hr] at h1; cases h1
      | some bs =>
        rw [hr] at h1
        simp only [Option.map_some, Option.some.injEq] at h1
        subst h1
        rw [List.cons_append, bindConds_cons, bindCond_append c a1 a2 b rest hc]
        simp only
        rw [ih rest bs hr]
        rfl

/-! ### the slots of `make_query` bind to their specification -/

theorem bind_ft (ft : Ft) : bindConds (ftCond ft).1.toList (ftCond ft).2 = some (ftSpec ft) := by
  cases ft with
  | none => rfl
  | str s =>
    simp only [ftCond, ftSpec]
    split <;> rfl
  | coll l =>
    simp only [ftCond, ftSpec]
    split
    · rfl
    · have e1 : List.drop l.length (List.map SqlArg.text l) = [] := by
        apply List.drop_eq_nil_of_le; simp
      have e2 : List.take l.length (List.map SqlArg.text l) = List.map SqlArg.text l := by
        apply List.take_of_length_le; simp
      simp [Option.toList, bindConds_cons, bindCond, e1, e2, bindConds]

theorem bind_strand (st : Option Str) : bindConds (strandCond st).1.toList (strandCond st).2 = some (strandSpec st) := by
  cases st with
  | none => rfl
  | some s =>
    simp only [strandCond, strandSpec]
    split <;> rfl

theorem bind_limit (lim : Limit) (w : Bool) (cs : List Cond) (as : List SqlArg)
    (h : limitConds lim w = .ok (cs, as)) : bindConds cs as = some (limitSpecOf lim w) := by
  unfold limitConds at h
  unfold limitSpecOf
  simp only [Bind.bind, Except.bind, pure, Except.pure] at h
  cases hp : limitParts lim with
  | error e => rw [hp] at h; cases h
  | ok parts =>
    rw [hp] at h
    cases parts with
    | none =>
      simp only [Except.ok.injEq, Prod.mk.injEq] at h
      obtain ⟨rfl, rfl⟩ := h
      rfl
    | some p =>
      obtain ⟨seqid, start, stop⟩ := p
      simp only at h ⊢
      cases hs : pyInt start with
      | error e => rw [hs] at h; cases h
      | ok s =>
        rw [hs] at h
        cases he : pyInt stop with
        | error e => rw [he] at h; cases h
        | ok e =>
          rw [he] at h
          simp only at h ⊢
          cases w <;> cases hb : binClause s e <;> rw [hb] at h <;>
            simp only [Bool.false_eq_true, if_false, if_true, Except.ok.injEq, Prod.mk.injEq] at h <;>
            obtain ⟨rfl, rfl⟩ := h <;> rfl

def joinOf : Other → Option (RCol × RCol)
  | .none => none
  | .join on to => some (on, to)
def extraOf : Extra → Option Cond
  | .none => none
  | .level => some (.eqP (.rel .level))

def mkSel (o : Other) (x : Extra) (ft : Option Cond) (lc : List Cond) (st : Option Cond)
    (ord : Option (List OrderTerm × Bool)) : Select :=
  { distinct := false, join := joinOf o, extra := extraOf x, ft := ft, limit := lc, strand := st, order := ord }

theorem makeSelect_ok (a : SArgs) (s : Select) (args : List SqlArg) (h : makeSelect a = .ok (s, args)) :
    ∃ lc la o, limitConds a.limit a.within = .ok (lc, la) ∧ orderAst a.orderBy a.reverse = .ok o ∧
      a.args.length = a.extra.arity + a.other.arity ∧
      s = mkSel a.other a.extra (ftCond a.featuretype).1 lc (strandCond a.strand).1 o ∧
      args = a.args ++ (ftCond a.featuretype).2 ++ la ++ (strandCond a.strand).2 := by
  unfold makeSelect at h
  simp only [Bind.bind, Except.bind, pure, Except.pure] at h
  by_cases hlen : a.args.length ≠ a.extra.arity + a.other.arity
  · simp only [ne_eq, hlen, not_false_eq_true, ↓reduceIte] at h; cases h
  · have hlen' : a.args.length = a.extra.arity + a.other.arity := Classical.byContradiction hlen
    simp only [ne_eq, hlen', not_true_eq_false, ↓reduceIte] at h
    cases hl : limitConds a.limit a.within with
    | error e => rw [hl] at h; cases h
    | ok lc =>
      rw [hl] at h
      cases ho : orderAst a.orderBy a.reverse with
      | error e => rw [ho] at h; cases h
      | ok oa =>
        rw [ho] at h
        simp only [Except.ok.injEq, Prod.mk.injEq] at h
        refine ⟨lc.1, lc.2, oa, rfl, rfl, hlen', ?_, h.2.symm⟩
        rw [← h.1]
        cases a.other <;> cases a.extra <;> rfl

def relConds (o : Other) (x : Extra) : List Cond :=
  (match o with | .join _ to => [Cond.eqP (.rel to)] | .none => []) ++ (extraOf x).toList

theorem bind_rel (o : Other) (x : Extra) (args : List SqlArg) (h : args.length = x.arity + o.arity) :
    bindConds (relConds o x) args = some (relSpec o x args) := by
  cases o <;> cases x <;> simp only [Other.arity, Extra.arity] at h
  · cases args with
    | nil => rfl
    | cons _ _ => simp at h
  · match args, h with
    | [l], _ => rfl
  · match args, h with
    | [i], _ => rfl
  · match args, h with
    | [i, l], _ => rfl

theorem core_select (s : Select) :
    (SqlQuery.select s).core.conds =
      (match s.join with | some (_, to) => [Cond.eqP (.rel to)] | none => []) ++
        s.extra.toList ++ s.ft.toList ++ s.limit ++ s.strand.toList := rfl

theorem core_conds_mk (o : Other) (x : Extra) (ft : Option Cond) (lc : List Cond) (st : Option Cond)
    (ord : Option (List OrderTerm × Bool)) :
    (SqlQuery.select (mkSel o x ft lc st ord)).core.conds = relConds o x ++ ft.toList ++ lc ++ st.toList := by
  rw [core_select]
  cases o <;> cases x <;> simp [relConds, joinOf, extraOf, mkSel]

/-- **lock-step, binding form**: sqlite's positional binding gives every condition of the generated statement
the value the caller supplied for it -/
theorem bind_makeQueryAst (a : SArgs) (q : SqlQuery) (args : List SqlArg) (h : makeQueryAst a = .ok (q, args)) :
    bind q args = some (spec a) := by
  unfold makeQueryAst at h
  cases hm : makeSelect a with
  | error e => rw [hm] at h; cases h
  | ok p =>
    obtain ⟨s, as⟩ := p
    rw [hm] at h
    simp only [Except.map, Except.ok.injEq, Prod.mk.injEq] at h
    obtain ⟨rfl, rfl⟩ := h
    obtain ⟨lc, la, o, hl, ho, hlen, rfl, rfl⟩ := makeSelect_ok a s as hm
    have hb : bindConds (relConds a.other a.extra ++ (ftCond a.featuretype).1.toList ++ lc ++ (strandCond a.strand).1.toList)
        (a.args ++ (ftCond a.featuretype).2 ++ la ++ (strandCond a.strand).2) =
        some (relSpec a.other a.extra a.args ++ ftSpec a.featuretype ++ limitSpecOf a.limit a.within ++ strandSpec a.strand) :=
      bindConds_append _ _ _ _ _ _
        (bindConds_append _ _ _ _ _ _
          (bindConds_append _ _ _ _ _ _ (bind_rel _ _ _ hlen) (bind_ft _))
          (bind_limit _ _ _ _ hl))
        (bind_strand _)
    unfold Sql.bind
    have hc := core_conds_mk a.other a.extra (ftCond a.featuretype).1 lc (strandCond a.strand).1 o
    rw [hc, hb]
    simp only [Option.map_some, spec, ho, SqlQuery.core, mkSel]
    cases a.other <;> rfl


/-! ### bins -/

theorem loop_false_set (offs : List Int) (s e : Int) (acc : List Int) :
    ∃ bs, Bins.loop false offs s e acc = .set bs := by
  induction offs generalizing s e acc with
  | nil => exact ⟨acc, rfl⟩
  | cons off rest ih =>
    simp only [Bins.loop, Bool.false_and, Bool.false_eq_true, if_false]
    exact ih _ _ _

theorem bins_false_set (s e : Int) : ∃ bs, Bins.bins s e .gff false = .set bs := by
  unfold Bins.bins
  split
  · exact ⟨[1], rfl⟩
  · split
    · exact ⟨[1], rfl⟩
    · split
      · exact ⟨[1], rfl⟩
      · exact loop_false_set _ _ _ _

theorem pySetOrder_length (l : List Int) : (pySetOrder l).length = l.eraseDups.length := by
  unfold pySetOrder
  simp only
  split
  · rename_i h; exact h.1
  · rfl

theorem mem_pySetOrder (l : List Int) (x : Int) : x ∈ pySetOrder l ↔ x ∈ l := by
  unfold pySetOrder
  simp only
  split
  · rename_i h
    obtain ⟨_, h2, h3⟩ := h
    constructor
    · intro hx
      have := List.all_eq_true.mp h2 x hx
      simpa using this
    · intro hx
      have := List.all_eq_true.mp h3 x hx
      simpa using this
  · exact List.mem_eraseDups

/-- the text's bin list and the meaning-level model's bin list: present together, same members -/
theorem binClause_limitBins (s e : Int) :
    (∃ bl bs, binClause s e = some bl ∧ limitBins s e = some bs ∧ ∀ x, x ∈ bl ↔ x ∈ bs) ∨
    (binClause s e = none ∧ limitBins s e = none) := by
  unfold binClause limitBins binList
  obtain ⟨bs, hbs⟩ := bins_false_set s e
  rw [hbs]
  split
  · simp only [pySetOrder_length]
    split
    · left
      refine ⟨_, _, rfl, rfl, ?_⟩
      intro x
      rw [mem_pySetOrder, List.mem_eraseDups]
    · right; exact ⟨rfl, rfl⟩
  · right; exact ⟨rfl, rfl⟩

/-! ### truth of the bound conditions on a features row -/

def jrow (p : Nat × Row) : JRow := { rowid := p.1, row := p.2, rel := none }

theorem eqVal_text (x s : Str) : eqVal (.text x) (.text s) = decide (x = s) := by
  simp [eqVal]

theorem cmp_ge (x : Option Int) (i : Int) : cmpVal .ge (optInt x) (.int i) = ge? x i := by
  cases x <;> simp [optInt, cmpVal, ge?, SqlVal.le]
theorem cmp_le (x : Option Int) (i : Int) : cmpVal .le (optInt x) (.int i) = le? x i := by
  cases x <;> simp [optInt, cmpVal, le?, SqlVal.le]
theorem cmp_lt (x : Option Int) (i : Int) : cmpVal .lt (optInt x) (.int i) = lt? x i := by
  cases x with
  | none => simp [optInt, cmpVal, lt?]
  | some v =>
    simp only [optInt, cmpVal, lt?, SqlVal.le, SqlVal.int.injEq]
    rw [Bool.eq_iff_iff]
    simp only [Bool.and_eq_true, decide_eq_true_eq, Bool.not_eq_true', decide_eq_false_iff_not]
    omega
theorem cmp_gt (x : Option Int) (i : Int) : cmpVal .gt (optInt x) (.int i) = gt? x i := by
  cases x with
  | none => simp [optInt, cmpVal, gt?]
  | some v =>
    simp only [optInt, cmpVal, gt?, SqlVal.le, SqlVal.int.injEq]
    rw [Bool.eq_iff_iff]
    simp only [Bool.and_eq_true, decide_eq_true_eq, Bool.not_eq_true', decide_eq_false_iff_not]
    omega

theorem eq_optInt (x : Option Int) (i : Int) : eqVal (optInt x) (.int i) = decide (x = some i) := by
  cases x <;> simp [optInt, eqVal]

theorem coerce_plain (v : SqlArg) (i : Int) (hp : SqlArg.plain v) (hi : intOf v = some i) : coerce .int v = .int i := by
  cases v with
  | int j => simp [intOf] at hi; simp [coerce, hi]
  | text s =>
    simp only [SqlArg.plain] at hp
    simp only [intOf] at hi
    simp [coerce, hp, hi]

theorem coerce_seqid (v : SqlArg) : coerce .text v = .text (seqidOf v) := by
  cases v <;> rfl

theorem any_lits_bin (b : Option Int) (bl : List Int) :
    bl.any (fun l => eqVal (optInt b) (coerce .int (.int l))) = (match b with | some b => bl.contains b | none => false) := by
  cases b with
  | none => simp [optInt, eqVal, coerce]
  | some v =>
    simp only [coerce, eq_optInt]
    induction bl with
    | nil => rfl
    | cons a t ih =>
      simp only [List.any_cons, List.contains_cons] at ih ⊢
      rw [ih]
      simp [Bool.beq_eq_decide_eq]

theorem contains_congr (bl bs : List Int) (h : ∀ x, x ∈ bl ↔ x ∈ bs) (b : Int) : bl.contains b = bs.contains b := by
  have := h b
  by_cases hb : b ∈ bl
  · simp [hb, this.mp hb]
  · have hb' : b ∉ bs := fun e => hb (this.mpr e)
    simp [hb, hb']


theorem all_ftSpec (j : JRow) (ft : Ft) :
    (ftSpec ft).all (evalB j) = ((ftOf ft).isEmpty || (ftOf ft).contains j.row.ftype) := by
  cases ft with
  | none => rfl
  | str s =>
    simp only [ftSpec, ftOf]
    split
    · rfl
    · simp [evalB, colVal, fcolVal, ColRef.affinity, coerce, eqVal_text]
  | coll l =>
    simp only [ftSpec, ftOf]
    split
    · rename_i h; simp [h]
    · rename_i h
      have hne : l.isEmpty = false := by simpa using h
      simp only [List.all_cons, List.all_nil, Bool.and_true, evalB, colVal, fcolVal, ColRef.affinity, List.any_map,
        hne, Bool.false_or]
      induction l with
      | nil => rfl
      | cons a t ih =>
        simp only [List.any_cons, Function.comp, coerce, eqVal_text, List.contains_cons, Bool.beq_eq_decide_eq]
        congr 1
        cases t with
        | nil => rfl
        | cons b t' => exact ih (by simp) (by simp)

theorem all_strandSpec (j : JRow) (st : Option Str) :
    (strandSpec st).all (evalB j) = (match st with | none => true | some s => s.isEmpty || decide (j.row.strand = s)) := by
  cases st with
  | none => rfl
  | some s =>
    simp only [strandSpec]
    split
    · rename_i h; simp [h]
    · rename_i h
      have hne : s.isEmpty = false := by simpa using h
      simp [evalB, colVal, fcolVal, ColRef.affinity, coerce, eqVal_text, hne]

def binSem (r : Row) : Option (List Int) → Bool
  | some bs => inBins r bs
  | none => true

def limitSem (r : Row) (w : Bool) : Option (Str × Int × Int) → Bool
  | none => true
  | some (sq, s, e) =>
    decide (r.seqid = sq) && (if w then ge? r.start s && le? r.stop e else le? r.start e && ge? r.stop s) &&
    binSem r (limitBins s e)

theorem all_limitSpecOf (j : JRow) (lim : Limit) (w : Bool) (L : Option (Str × Int × Int))
    (hL : limitOf lim = some L) (hp : Limit.plain lim) :
    (limitSpecOf lim w).all (evalB j) = limitSem j.row w L := by
  unfold limitOf at hL
  unfold limitSpecOf
  cases hparts : limitParts lim with
  | error e => rw [hparts] at hL; cases hL
  | ok parts =>
    rw [hparts] at hL
    cases parts with
    | none =>
      simp only [Option.some.injEq] at hL
      subst hL
      rfl
    | some t =>
      obtain ⟨seqid, start, stop⟩ := t
      obtain ⟨hps, hpe⟩ := hp seqid start stop hparts
      simp only at hL ⊢
      cases hs : intOf start with
      | none => rw [hs] at hL; cases hL
      | some s =>
        cases he : intOf stop with
        | none => rw [hs, he] at hL; cases hL
        | some e =>
          rw [hs, he] at hL
          simp only [Option.some.injEq] at hL
          subst hL
          have hs' : pyInt start = .ok s := by
            cases start with
            | int i => simp [intOf] at hs; simp [pyInt, hs]
            | text t => simp only [intOf] at hs; simp [pyInt, hs]
          have he' : pyInt stop = .ok e := by
            cases stop with
            | int i => simp [intOf] at he; simp [pyInt, he]
            | text t => simp only [intOf] at he; simp [pyInt, he]
          rw [hs', he']
          simp only [limitSpec, limitSem]
          have hbin : (binSpec (binClause s e)).all (evalB j) = binSem j.row (limitBins s e) := by
            rcases binClause_limitBins s e with ⟨bl, bs, h1, h2, hm⟩ | ⟨h1, h2⟩
            · rw [h1, h2]
              simp only [binSpec, binSem, List.all_cons, List.all_nil, Bool.and_true, evalB, colVal, fcolVal, ColRef.affinity, any_lits_bin, inBins]
              cases j.row.bin with
              | none => rfl
              | some b => exact contains_congr bl bs hm b
            · rw [h1, h2]; rfl
          rw [List.all_append, hbin]
          cases w
          · simp only [Bool.false_eq_true, if_false, List.all_cons, List.all_nil, Bool.and_true, evalB, colVal, fcolVal,
              ColRef.affinity, coerce_seqid, eqVal_text, coerce_plain stop e hpe he, coerce_plain start s hps hs, cmp_le, cmp_ge,
              Bool.and_assoc]
          · simp only [if_true, List.all_cons, List.all_nil, Bool.and_true, evalB, colVal, fcolVal,
              ColRef.affinity, coerce_seqid, eqVal_text, coerce_plain stop e hpe he, coerce_plain start s hps hs, cmp_le, cmp_ge,
              Bool.and_assoc]


/-! ### ORDER BY -/

def toOrderKey : SortKey → OrderKey
  | .seqid => .col .seqid | .source => .col .source | .featuretype => .col .featuretype
  | .start => .col .start | .stop => .col .stop | .score => .col .score | .strand => .col .strand
  | .frame => .col .frame | .fileOrder => .fileOrder | .length => .length

theorem keyVal_toOrderKey (p : Nat × Row) (k : SortKey) : keyVal p (toOrderKey k) = sortVal p.1 p.2 k := by
  cases k <;> rfl

theorem keysLe_eq_rowLe (ks : List SortKey) (d : Bool) (a b : Nat × Row) :
    keysLe (ks.map toOrderKey) d a b = rowLe ks d a b := by
  induction ks with
  | nil => rfl
  | cons k rest ih =>
    cases rest with
    | nil => simp only [List.map_cons, List.map_nil, keysLe, rowLe, keyVal_toOrderKey]
    | cons k2 rest =>
      simp only [List.map_cons, keysLe, rowLe, keyVal_toOrderKey] at ih ⊢
      rw [ih]

theorem table_terms : ∀ p ∈ sortKeyTable, OrderTerm.ofPyName p.1 = .key (toOrderKey p.2) ∧ p.1 ∈ validOrderBy ∧ p.1 ≠ [] := by
  decide

theorem sortKeyOfName_spec (s : Str) (k : SortKey) (h : sortKeyOfName s = some k) :
    OrderTerm.ofPyName s = .key (toOrderKey k) ∧ s ∈ validOrderBy ∧ s ≠ [] := by
  unfold sortKeyOfName at h
  cases hf : sortKeyTable.find? (fun p => p.1 = s) with
  | none => rw [hf] at h; cases h
  | some p =>
    rw [hf] at h
    simp only [Option.map_some, Option.some.injEq] at h
    have hm := List.mem_of_find?_eq_some hf
    have hs := List.find?_some hf
    simp only [decide_eq_true_eq] at hs
    subst hs; subst h
    exact table_terms p hm

theorem sortKeysOfNames_spec (l : List Str) (ks : List SortKey) (h : sortKeysOfNames l = some ks) :
    l.map OrderTerm.ofPyName = ks.map (fun k => OrderTerm.key (toOrderKey k)) ∧ (∀ s ∈ l, s ∈ validOrderBy) ∧
      l.length = ks.length := by
  induction l generalizing ks with
  | nil =>
    simp only [sortKeysOfNames, Option.some.injEq] at h
    subst h
    exact ⟨rfl, by simp, rfl⟩
  | cons s rest ih =>
    simp only [sortKeysOfNames] at h
    cases hk : sortKeyOfName s with
    | none => rw [hk] at h; cases h
    | some k =>
      cases hr : sortKeysOfNames rest with
      | none => rw [hk, hr] at h; cases h
      | some ks' =>
        rw [hk, hr] at h
        simp only [Option.some.injEq] at h
        subst h
        obtain ⟨h1, h2, h3⟩ := ih ks' hr
        obtain ⟨g1, g2, _⟩ := sortKeyOfName_spec s k hk
        refine ⟨by simp [g1, h1], ?_, by simp [h3]⟩
        intro x hx
        rcases List.mem_cons.mp hx with rfl | hx
        · exact g2
        · exact h2 x hx

theorem termKeys_map_key (ks : List OrderKey) : termKeys (ks.map OrderTerm.key) = some ks := by
  induction ks with
  | nil => rfl
  | cons k rest ih => simp [termKeys, ih]

/-- what `orderAst` produces when the names are sort keys of the meaning-level model -/
theorem orderAst_of_keys (ob : OrderBy) (rev : Bool) (ks : List SortKey) (h : orderKeysOf ob = some ks) :
    orderAst ob rev = .ok (if ks.isEmpty then none else some ((ks.map toOrderKey).map OrderTerm.key, rev)) := by
  cases ob with
  | none =>
    simp only [orderKeysOf, Option.some.injEq] at h
    subst h; rfl
  | str s =>
    simp only [orderKeysOf] at h
    simp only [orderAst]
    split at h
    · rename_i he
      simp only [Option.some.injEq] at h
      subst h
      simp [he]
    · rename_i he
      cases hk : sortKeyOfName s with
      | none => rw [hk] at h; cases h
      | some k =>
        rw [hk] at h
        simp only [Option.map_some, Option.some.injEq] at h
        subst h
        obtain ⟨g1, _, _⟩ := sortKeyOfName_spec s k hk
        simp [he, g1]
  | tuple l =>
    simp only [orderKeysOf] at h
    obtain ⟨h1, h2, h3⟩ := sortKeysOfNames_spec l ks h
    simp only [orderAst]
    cases l with
    | nil =>
      have : ks = [] := by cases ks with | nil => rfl | cons _ _ => simp at h3
      subst this; rfl
    | cons s rest =>
      have hne : ks.isEmpty = false := by cases ks with | nil => simp at h3 | cons _ _ => rfl
      have hall : (s :: rest).all (fun k => validOrderBy.contains k) = true := by
        rw [List.all_eq_true]
        intro x hx
        simpa using h2 x hx
      simp only [List.isEmpty_cons, Bool.false_eq_true, if_false, hall, if_true, hne, h1, List.map_map]
      rfl


/-! ### evaluation of a `make_query` statement -/

/-- a condition on `features` columns that sqlite parses -/
def FeatCond (c : Cond) : Prop := c.syntaxOk = true ∧ c.usesRel = false

theorem featCond_ft (ft : Ft) : ∀ c ∈ (ftCond ft).1.toList, FeatCond c := by
  cases ft with
  | none => simp [ftCond]
  | str s => simp only [ftCond]; split <;> simp [FeatCond, Cond.syntaxOk, Cond.usesRel]
  | coll l => simp only [ftCond]; split <;> simp [FeatCond, Cond.syntaxOk, Cond.usesRel]

theorem featCond_strand (st : Option Str) : ∀ c ∈ (strandCond st).1.toList, FeatCond c := by
  cases st with
  | none => simp [strandCond]
  | some s => simp only [strandCond]; split <;> simp [FeatCond, Cond.syntaxOk, Cond.usesRel]

theorem featCond_limit (lim : Limit) (w : Bool) (cs : List Cond) (as : List SqlArg)
    (h : limitConds lim w = .ok (cs, as)) : ∀ c ∈ cs, FeatCond c := by
  unfold limitConds at h
  simp only [Bind.bind, Except.bind, pure, Except.pure] at h
  cases hp : limitParts lim with
  | error e => rw [hp] at h; cases h
  | ok parts =>
    rw [hp] at h
    cases parts with
    | none =>
      simp only [Except.ok.injEq, Prod.mk.injEq] at h
      obtain ⟨rfl, rfl⟩ := h
      simp
    | some p =>
      obtain ⟨seqid, start, stop⟩ := p
      simp only at h
      cases hs : pyInt start with
      | error e => rw [hs] at h; cases h
      | ok s =>
        rw [hs] at h
        cases he : pyInt stop with
        | error e => rw [he] at h; cases h
        | ok e =>
          rw [he] at h
          simp only at h
          cases w <;> cases hb : binClause s e <;> rw [hb] at h <;>
            simp only [Bool.false_eq_true, if_false, if_true, Except.ok.injEq, Prod.mk.injEq] at h <;>
            obtain ⟨rfl, rfl⟩ := h <;> simp [FeatCond, Cond.syntaxOk, Cond.usesRel]

theorem product_none (db : Db) : product db none = (indexed db.features).map jrow := rfl

theorem filter_jrow (l : List (Nat × Row)) (P : JRow → Bool) :
    ((l.map jrow).filter P).map (fun j => (j.rowid, j.row)) = l.filter (fun p => P (jrow p)) := by
  induction l with
  | nil => rfl
  | cons a t ih =>
    simp only [List.map_cons, List.filter_cons]
    split
    · simp [ih, jrow]
    · exact ih

theorem mergeSort_congr {α : Type} (l : List α) (f g : α → α → Bool) (h : ∀ a b, f a b = g a b) :
    l.mergeSort f = l.mergeSort g := by
  have : f = g := funext (fun a => funext (fun b => h a b))
  rw [this]

/-- **what `eval` computes for the statement of `all_features` / `features_of_type`** -/
theorem eval_features (db : Db) (limit : Limit) (strand : Option Str) (ft : Ft) (ob : OrderBy) (rev within : Bool)
    (q : SqlQuery) (args : List SqlArg) (mq : Query)
    (h : featuresAst limit strand ft ob rev within = .ok (q, args))
    (hq : toQuery limit strand ft ob rev within = some mq) (hp : Limit.plain limit) :
    eval q args db = .ok (order mq ((indexed db.features).filter (fun p => rowMatches mq p.2))) := by
  have hb := bind_makeQueryAst _ q args h
  unfold featuresAst makeQueryAst at h
  cases hm : makeSelect { limit := limit, strand := strand, featuretype := ft, orderBy := ob, reverse := rev, within := within } with
  | error e => rw [hm] at h; cases h
  | ok p =>
    obtain ⟨s, as⟩ := p
    rw [hm] at h
    simp only [Except.map, Except.ok.injEq, Prod.mk.injEq] at h
    obtain ⟨rfl, rfl⟩ := h
    obtain ⟨lc, la, o, hl, ho, hlen, rfl, rfl⟩ := makeSelect_ok _ s as hm
    -- the meaning-level query
    unfold toQuery at hq
    cases hL : limitOf limit with
    | none => rw [hL] at hq; cases hq
    | some L =>
      cases hK : orderKeysOf ob with
      | none => rw [hL, hK] at hq; cases hq
      | some ks =>
        rw [hL, hK] at hq
        simp only [Option.some.injEq] at hq
        subst hq
        have ho' := orderAst_of_keys ob rev ks hK
        simp only at ho hl
        rw [ho'] at ho
        simp only [Except.ok.injEq] at ho
        subst ho
        -- accepted
        have hconds := core_conds_mk .none .none (ftCond ft).1 lc (strandCond strand).1
          (if ks.isEmpty then none else some ((ks.map toOrderKey).map OrderTerm.key, rev))
        have hfc : ∀ c ∈ (relConds .none .none ++ (ftCond ft).1.toList ++ lc ++ (strandCond strand).1.toList), FeatCond c := by
          intro c hc
          simp only [relConds, extraOf, Option.toList, List.append_nil, List.nil_append, List.mem_append] at hc
          rcases hc with (hc | hc) | hc
          · exact featCond_ft ft c hc
          · exact featCond_limit _ _ _ _ hl c hc
          · exact featCond_strand strand c hc
        have hacc : (SqlQuery.select (mkSel .none .none (ftCond ft).1 lc (strandCond strand).1
            (if ks.isEmpty then none else some ((ks.map toOrderKey).map OrderTerm.key, rev)))).accepted = true := by
          unfold SqlQuery.accepted
          rw [hconds]
          simp only [Bool.and_eq_true, List.all_eq_true, Bool.or_eq_true, Bool.not_eq_true']
          refine ⟨⟨⟨fun c hc => (hfc c hc).1, Or.inr ?_⟩, ?_⟩, trivial⟩
          · rw [List.any_eq_false]
            intro c hc
            simp [(hfc c hc).2]
          · simp only [SqlQuery.core]
            cases ks with
            | nil => rfl
            | cons k t => rfl
        unfold eval
        rw [hacc, hb]
        simp only [Bool.not_true, Bool.false_eq_true, if_false, spec, ho', relSpec, List.nil_append]
        rw [product_none, filter_jrow]
        have hrows : (indexed db.features).filter (fun p => (ftSpec ft ++ limitSpecOf limit within ++ strandSpec strand).all (evalB (jrow p))) =
            (indexed db.features).filter (fun p => rowMatches { featuretype := ftOf ft, strand := strand, limit := L, within := within, orderBy := ks, reverse := rev } p.2) := by
          congr 1
          funext p
          rw [List.all_append, List.all_append, all_ftSpec, all_strandSpec, all_limitSpecOf _ _ _ L hL hp]
          cases L with
          | none => cases strand <;> rfl
          | some t => obtain ⟨sq, a, b⟩ := t; cases strand <;> rfl
        rw [hrows]
        unfold order
        cases ks with
        | nil => rfl
        | cons k t =>
          simp only [List.isEmpty_cons, Bool.false_eq_true, if_false, termKeys_map_key]
          congr 1
          exact mergeSort_congr _ _ _ (keysLe_eq_rowLe (k :: t) rev)


/-! ### DISTINCT over a JOIN -/

theorem mem_distinct {α : Type} [DecidableEq α] (l : List α) (x : α) : x ∈ distinct l → x ∈ l := by
  induction l with
  | nil => intro h; exact h
  | cons a t ih =>
    intro h
    simp only [distinct, List.mem_cons, List.mem_filter] at h
    rcases h with h | ⟨h, _⟩
    · exact List.mem_cons.mpr (Or.inl h)
    · exact List.mem_cons_of_mem _ (ih h)

theorem filter_ne_of_not_mem {α : Type} [DecidableEq α] (l : List α) (a : α) (h : a ∉ l) :
    l.filter (fun x => x ≠ a) = l := by
  apply List.filter_eq_self.mpr
  intro x hx
  simp only [ne_eq, decide_not, Bool.not_eq_eq_eq_not, Bool.not_true, decide_eq_false_iff_not]
  intro e; exact h (e ▸ hx)

/-- a block of copies of `a` in front of `L` -/
theorem distinct_block {α : Type} [DecidableEq α] (inner L : List α) (a : α) (hin : ∀ x ∈ inner, x = a) (ha : a ∉ L) :
    distinct (inner ++ L) = if inner.isEmpty then distinct L else a :: distinct L := by
  induction inner with
  | nil => rfl
  | cons b t ih =>
    have hb : b = a := hin b (by simp)
    subst hb
    have ht : ∀ x ∈ t, x = b := fun x hx => hin x (List.mem_cons_of_mem _ hx)
    simp only [List.cons_append, distinct, List.isEmpty_cons, Bool.false_eq_true, if_false]
    rw [ih ht]
    have hd : b ∉ distinct L := fun h => ha (mem_distinct L b h)
    split
    · rw [filter_ne_of_not_mem _ _ hd]
    · simp only [List.filter_cons, ne_eq, not_true_eq_false, decide_false, Bool.false_eq_true, if_false]
      rw [filter_ne_of_not_mem _ _ hd]

theorem distinct_flatMap {α : Type} [DecidableEq α] (l : List α) (g : α → List α)
    (hg : ∀ p, ∀ x ∈ g p, x = p) (hl : l.Pairwise (· ≠ ·)) :
    distinct (l.flatMap g) = l.filter (fun p => !(g p).isEmpty) := by
  induction l with
  | nil => rfl
  | cons a t ih =>
    rw [List.pairwise_cons] at hl
    have hnot : a ∉ t.flatMap g := by
      intro h
      rcases List.mem_flatMap.mp h with ⟨p, hp, hx⟩
      have := hg p a hx
      exact hl.1 p hp this
    rw [List.flatMap_cons, distinct_block _ _ a (hg a) hnot, ih hl.2, List.filter_cons]
    cases (g a).isEmpty <;> simp

theorem indexed_pairwise_aux (l : List Row) (n : Nat) :
    ((l.zipIdx n).map (fun (x : Row × Nat) => (x.2 + 1, x.1))).Pairwise (· ≠ ·) := by
  induction l generalizing n with
  | nil => simp
  | cons a t ih =>
    simp only [List.zipIdx_cons, List.map_cons, List.pairwise_cons]
    refine ⟨?_, ih (n + 1)⟩
    intro x hx
    rcases List.mem_map.mp hx with ⟨y, hy, rfl⟩
    obtain ⟨r, i⟩ := y
    have := List.le_snd_of_mem_zipIdx hy
    simp only at this
    intro e
    simp only [Prod.mk.injEq] at e
    omega

theorem indexed_pairwise (l : List Row) : (indexed l).Pairwise (· ≠ ·) := by
  unfold indexed
  exact indexed_pairwise_aux l 0


/-! ### `_relation` -/

def jrel (p : Nat × Row) (rel : Rel) : JRow := { rowid := p.1, row := p.2, rel := some rel }

/-- the relations row links the feature to `id` in the requested direction and level -/
def relSem (r : RelArgs) (rel : Rel) : Bool :=
  (if r.isChildren then decide (rel.parent = r.id) else decide (rel.child = r.id)) &&
  (match r.level with | some l => decide (rel.level = l) | none => true)

def relTarget (r : RelArgs) (rel : Rel) : Str := if r.isChildren then rel.child else rel.parent

theorem related_eq (db : Db) (r : RelArgs) :
    related db r.isChildren r.id r.level = (db.relations.filter (relSem r)).map (relTarget r) := by
  unfold related relSem relTarget
  rfl

def extraOfLevel : Option Int → Extra
  | some _ => .level
  | none => .none

theorem all_relSpec (r : RelArgs) (p : Nat × Row) (rel : Rel) :
    (relSpec (.join r.on r.to) (extraOfLevel r.level) r.initArgs).all (evalB (jrel p rel)) = relSem r rel := by
  unfold relSem RelArgs.initArgs RelArgs.to
  cases r.isChildren <;> cases r.level <;>
    simp [extraOfLevel, relSpec, evalB, colVal, jrel, ColRef.affinity, coerce, eqVal]

theorem on_match (r : RelArgs) (p : Nat × Row) (rel : Rel) :
    eqVal (colVal (jrel p rel) (.rel r.on)) (.text p.2.id) = decide (relTarget r rel = p.2.id) := by
  unfold RelArgs.on relTarget
  cases r.isChildren <;> simp [colVal, jrel, eqVal_text]

theorem product_some (db : Db) (on : RCol) :
    product db (some on) = (indexed db.features).flatMap (fun p =>
      (db.relations.filter (fun rel => eqVal (colVal (jrel p rel) (.rel on)) (.text p.2.id))).map (jrel p)) := rfl

theorem any_and_const {α : Type} (l : List α) (f : α → Bool) (c : Bool) :
    l.any (fun x => f x && c) = (l.any f && c) := by
  induction l with
  | nil => simp
  | cons a t ih => simp only [List.any_cons, ih]; cases f a <;> cases c <;> simp

theorem not_isEmpty_filter {α : Type} (l : List α) (P : α → Bool) : (!(l.filter P).isEmpty) = l.any P := by
  induction l with
  | nil => rfl
  | cons a t ih =>
    simp only [List.filter_cons, List.any_cons]
    cases h : P a
    · simpa using ih
    · simp

theorem contains_related (db : Db) (r : RelArgs) (x : Str) :
    ((db.relations.filter (relSem r)).map (relTarget r)).contains x =
      db.relations.any (fun rel => decide (relTarget r rel = x) && relSem r rel) := by
  induction db.relations with
  | nil => rfl
  | cons a t ih =>
    simp only [List.filter_cons, List.any_cons]
    cases h : relSem r a
    · simp only [Bool.false_eq_true, if_false, Bool.and_false, Bool.false_or]
      exact ih
    · simp only [if_true, List.map_cons, List.contains_cons, ih, Bool.and_true]
      congr 1
      simp [Bool.beq_eq_decide_eq, eq_comm]


theorem toSArgs_extra (r : RelArgs) : r.toSArgs.extra = extraOfLevel r.level := by
  cases h : r.level <;> simp [RelArgs.toSArgs, extraOfLevel, h]

theorem bind_distinct (s : Select) (args : List SqlArg) :
    Sql.bind (.select { s with distinct := true }) args =
      (Sql.bind (.select s) args).map (fun b => { b with distinct := true }) := by
  unfold Sql.bind
  simp only [SqlQuery.core]
  cases bindConds _ args <;> rfl

theorem accepted_distinct (s : Select) :
    (SqlQuery.select { s with distinct := true }).accepted = (SqlQuery.select s).accepted := rfl

theorem relConds_ok (on to : RCol) (x : Extra) : ∀ c ∈ relConds (.join on to) x, c.syntaxOk = true := by
  cases x <;> simp [relConds, extraOf, Cond.syntaxOk]

theorem initArgs_length (r : RelArgs) :
    r.initArgs.length = (extraOfLevel r.level).arity + (Other.join r.on r.to).arity := by
  cases h : r.level <;> simp [RelArgs.initArgs, extraOfLevel, Extra.arity, Other.arity, h]

/-- **what `eval` computes for the statement of `children` / `parents`** -/
theorem eval_relation (db : Db) (r : RelArgs) (q : SqlQuery) (args : List SqlArg) (mq : Query)
    (h : relationAst r = .ok (q, args))
    (hq : toQuery r.limit none r.featuretype r.orderBy r.reverse r.within = some mq) (hp : Limit.plain r.limit) :
    eval q args db = .ok (order mq ((indexed db.features).filter (fun p =>
        (related db r.isChildren r.id r.level).contains p.2.id && rowMatches mq p.2))) := by
  unfold relationAst at h
  cases hm : makeSelect r.toSArgs with
  | error e => rw [hm] at h; cases h
  | ok p =>
    obtain ⟨s, as⟩ := p
    rw [hm] at h
    simp only [Except.map, Except.ok.injEq, Prod.mk.injEq] at h
    obtain ⟨rfl, rfl⟩ := h
    have hb : Sql.bind (.select s) as = some (spec r.toSArgs) :=
      bind_makeQueryAst r.toSArgs (.select s) as (by unfold makeQueryAst; rw [hm]; rfl)
    obtain ⟨lc, la, o, hl, ho, hlen, hs, has⟩ := makeSelect_ok _ s as hm
    have hx := toSArgs_extra r
    have e1 : r.toSArgs.other = .join r.on r.to := rfl
    have e2 : r.toSArgs.featuretype = r.featuretype := rfl
    have e3 : r.toSArgs.strand = none := rfl
    have e4 : r.toSArgs.limit = r.limit := rfl
    have e5 : r.toSArgs.within = r.within := rfl
    have e6 : r.toSArgs.orderBy = r.orderBy := rfl
    have e7 : r.toSArgs.reverse = r.reverse := rfl
    have e8 : r.toSArgs.args = r.initArgs := rfl
    rw [e1, hx, e2, e3] at hs
    rw [e4, e5] at hl
    rw [e6, e7] at ho
    subst hs
    unfold toQuery at hq
    cases hL : limitOf r.limit with
    | none => rw [hL] at hq; cases hq
    | some L =>
      cases hK : orderKeysOf r.orderBy with
      | none => rw [hL, hK] at hq; cases hq
      | some ks =>
        rw [hL, hK] at hq
        simp only [Option.some.injEq] at hq
        subst hq
        have ho' := orderAst_of_keys r.orderBy r.reverse ks hK
        rw [ho'] at ho
        simp only [Except.ok.injEq] at ho
        subst ho
        have hconds := core_conds_mk (.join r.on r.to) (extraOfLevel r.level) (ftCond r.featuretype).1 lc (strandCond none).1
          (if ks.isEmpty then none else some ((ks.map toOrderKey).map OrderTerm.key, r.reverse))
        have hacc : (SqlQuery.select (mkSel (.join r.on r.to) (extraOfLevel r.level) (ftCond r.featuretype).1 lc (strandCond none).1
            (if ks.isEmpty then none else some ((ks.map toOrderKey).map OrderTerm.key, r.reverse)))).accepted = true := by
          unfold SqlQuery.accepted
          rw [hconds]
          simp only [Bool.and_eq_true, List.all_eq_true, Bool.or_eq_true, Bool.not_eq_true']
          refine ⟨⟨⟨?_, Or.inl rfl⟩, ?_⟩, trivial⟩
          · intro c hc
            simp only [strandCond, Option.toList, List.append_nil, List.mem_append] at hc
            rcases hc with (hc | hc) | hc
            · exact relConds_ok _ _ _ c hc
            · exact (featCond_ft _ c hc).1
            · exact (featCond_limit _ _ _ _ hl c hc).1
          · simp only [SqlQuery.core, mkSel]
            cases ks with
            | nil => rfl
            | cons k t => rfl
        unfold eval
        rw [accepted_distinct, hacc, bind_distinct, hb]
        simp only [Bool.not_true, Bool.false_eq_true, if_false, Option.map_some, spec, e1, hx, e2, e3, e4, e5, e6, e7, e8,
          ho', if_true, strandSpec, List.append_nil]
        rw [product_some, List.filter_flatMap, List.map_flatMap]
        rw [distinct_flatMap _ _ _ (indexed_pairwise db.features)]
        · have hrows : (indexed db.features).filter (fun p => !(List.map (fun j => (j.rowid, j.row))
              (List.filter (fun j => (relSpec (.join r.on r.to) (extraOfLevel r.level) r.initArgs ++ ftSpec r.featuretype ++
                  limitSpecOf r.limit r.within).all (evalB j))
                (List.map (jrel p) (List.filter (fun rel => eqVal (colVal (jrel p rel) (.rel r.on)) (.text p.2.id)) db.relations)))).isEmpty) =
              (indexed db.features).filter (fun p => (related db r.isChildren r.id r.level).contains p.2.id &&
                rowMatches { featuretype := ftOf r.featuretype, strand := none, limit := L, within := r.within, orderBy := ks, reverse := r.reverse } p.2) := by
            congr 1
            funext p
            rw [List.isEmpty_map, List.filter_map, List.isEmpty_map, List.filter_filter, not_isEmpty_filter]
            have hf : ∀ rel, ((relSpec (.join r.on r.to) (extraOfLevel r.level) r.initArgs ++ ftSpec r.featuretype ++
                  limitSpecOf r.limit r.within).all (evalB (jrel p rel))) =
                (relSem r rel && rowMatches { featuretype := ftOf r.featuretype, strand := none, limit := L, within := r.within, orderBy := ks, reverse := r.reverse } p.2) := by
              intro rel
              rw [List.all_append, List.all_append, all_relSpec, all_ftSpec, all_limitSpecOf _ _ _ L hL hp]
              cases L with
              | none => simp [rowMatches, limitSem, jrel]
              | some t => obtain ⟨sq, a, b⟩ := t; simp [rowMatches, limitSem, binSem, jrel, Bool.and_assoc]; rfl
            simp only [Function.comp, hf, on_match]
            rw [related_eq, contains_related]
            rw [← any_and_const]
            congr 1
            funext rel
            generalize decide (relTarget r rel = p.2.id) = x
            generalize relSem r rel = y
            generalize rowMatches _ p.2 = z
            cases x <;> cases y <;> cases z <;> rfl
          rw [hrows]
          unfold order
          cases ks with
          | nil => rfl
          | cons k t =>
            simp only [List.isEmpty_cons, Bool.false_eq_true, if_false, termKeys_map_key]
            congr 1
            exact mergeSort_congr _ _ _ (keysLe_eq_rowLe (k :: t) r.reverse)
        · intro p x hx
          simp only [List.mem_map, List.mem_filter] at hx
          obtain ⟨j, ⟨⟨rel, _, rfl⟩, _⟩, rfl⟩ := hx
          rfl


/-! ### `region` -/

def seqSem (a : RegionArgs) (r : Row) : Bool :=
  match a.seqid with | some sq => decide (r.seqid = sq) | none => true

def coordSem (a : RegionArgs) (r : Row) : Bool :=
  if a.within then
     (match truthy a.start with | some s => ge? r.start s | none => true) &&
     (match truthy a.stop with | some e => le? r.stop e | none => true)
   else
     match truthy a.start, truthy a.stop with
     | some s, some e => le? r.start e && ge? r.stop s
     | some s, none => gt? r.stop s
     | none, some e => lt? r.start e
     | none, none => true

def binSemR (a : RegionArgs) (r : Row) : Bool :=
  if a.within then
     match a.start, a.stop with
     | some s, some e =>
       if 0 < s ∧ s < Bins.maxChrom ∧ 0 ≤ e ∧ e < Bins.maxChrom then
         match Bins.bins s e .gff false with
         | .set bs => if bs.eraseDups.length < 900 then inBins r bs else true
         | .int _ => true
       else true
     | _, _ => true
   else true

def ftSemR (a : RegionArgs) (r : Row) : Bool :=
  match a.featuretype with | some fts => fts.contains r.ftype | none => true

def strandSemR (a : RegionArgs) (r : Row) : Bool :=
  match a.strand with | some st => decide (r.strand = st) | none => true

theorem regionMatches_eq (a : RegionArgs) (r : Row) :
    regionMatches a r = (seqSem a r && coordSem a r && binSemR a r && ftSemR a r && strandSemR a r) := rfl

theorem any_text_contains (l : List Str) (x : Str) :
    (l.map SqlArg.text).any (fun v => eqVal (.text x) (coerce .text v)) = l.contains x := by
  induction l with
  | nil => rfl
  | cons a t ih =>
    simp only [List.map_cons, List.any_cons, List.contains_cons]
    rw [ih]
    show (eqVal (.text x) (.text a) || _) = _
    rw [eqVal_text]
    simp [Bool.beq_eq_decide_eq]

theorem pos_bind_sem (a : RegionArgs) (j : JRow) :
    ∃ bs, bindConds (regionPos a).1 (regionPos a).2 = some bs ∧ bs.all (evalB j) = (seqSem a j.row && coordSem a j.row) := by
  unfold regionPos seqSem coordSem regionStart regionStop regionStartOp regionEndOp
  cases a.within <;> simp only [Bool.false_eq_true, if_false, if_true] <;>
    cases a.seqid <;> cases truthy a.start <;> cases truthy a.stop <;>
    simp only [List.nil_append, List.append_nil, List.cons_append] <;>
    refine ⟨_, rfl, ?_⟩ <;>
    simp [evalB, colVal, fcolVal, ColRef.affinity, coerce, eqVal_text, cmp_le, cmp_ge, cmp_lt, cmp_gt]


theorem loop_false_prefix (offs : List Int) (s e : Int) (acc : List Int) :
    ∃ rest, Bins.loop false offs s e acc = .set (acc ++ rest) := by
  induction offs generalizing s e acc with
  | nil => exact ⟨[], by simp [Bins.loop]⟩
  | cons off tl ih =>
    simp only [Bins.loop, Bool.false_and, Bool.false_eq_true, if_false]
    obtain ⟨rest, h⟩ := ih (s >>> Bins.nextShift) (e >>> Bins.nextShift) (acc ++ Bins.rangeInt (off + s) (off + e + 1))
    exact ⟨Bins.rangeInt (off + s) (off + e + 1) ++ rest, by rw [h, List.append_assoc]⟩

theorem bins_false_ne_nil (s e : Int) (bs : List Int) (h : Bins.bins s e .gff false = .set bs) : bs ≠ [] := by
  unfold Bins.bins at h
  split at h
  · simp only [Bool.false_eq_true, if_false, Bins.BinResult.set.injEq] at h; subst h; simp
  · split at h
    · simp only [Bool.false_eq_true, if_false, Bins.BinResult.set.injEq] at h; subst h; simp
    · split at h
      · simp only [Bool.false_eq_true, if_false, Bins.BinResult.set.injEq] at h; subst h; simp
      · obtain ⟨rest, hr⟩ := loop_false_prefix Bins.offsets ((s - Bins.CoordFmt.gff.off) >>> Bins.firstShift) (e >>> Bins.firstShift) [1]
        rw [hr] at h
        simp only [Bins.BinResult.set.injEq] at h
        subst h; simp

theorem eraseDups_ne_nil (l : List Int) (h : l ≠ []) : l.eraseDups ≠ [] := by
  cases l with
  | nil => exact absurd rfl h
  | cons a t => rw [List.eraseDups_cons]; simp

theorem binClause_ne_nil (s e : Int) (bl : List Int) (h : binClause s e = some bl) : bl ≠ [] := by
  unfold binClause binList at h
  obtain ⟨bs, hbs⟩ := bins_false_set s e
  rw [hbs] at h
  split at h
  · simp only at h
    split at h
    · simp only [Option.some.injEq] at h
      subst h
      intro e0
      have h1 := pySetOrder_length bs
      rw [e0] at h1
      have h2 := eraseDups_ne_nil bs (bins_false_ne_nil s e bs hbs)
      cases hh : bs.eraseDups with
      | nil => exact h2 hh
      | cons _ _ => rw [hh] at h1; simp at h1
    · cases h
  · cases h

def binLitSem (r : Row) : Option (List Int) → Bool
  | some bl => (match r.bin with | some b => bl.contains b | none => false)
  | none => true

def binSemCore (s e : Int) (r : Row) : Bool :=
  if 0 < s ∧ s < Bins.maxChrom ∧ 0 ≤ e ∧ e < Bins.maxChrom then
    match Bins.bins s e .gff false with
    | .set bs => if bs.eraseDups.length < 900 then inBins r bs else true
    | .int _ => true
  else true

theorem binClause_sem (s e : Int) (r : Row) : binLitSem r (binClause s e) = binSemCore s e r := by
  unfold binClause binList binSemCore
  obtain ⟨bs, hbs⟩ := bins_false_set s e
  rw [hbs]
  split
  · simp only [pySetOrder_length]
    split
    · simp only [binLitSem, inBins]
      cases r.bin with
      | none => rfl
      | some b => exact contains_congr _ _ (mem_pySetOrder bs) b
    · rfl
  · rfl

theorem bin_bind_sem (a : RegionArgs) (j : JRow) :
    ∃ bs, bindConds (regionBin a).1.toList (regionBin a).2 = some bs ∧ bs.all (evalB j) = binSemR a j.row ∧
      ∀ c ∈ (regionBin a).1.toList, c.syntaxOk = true ∧ c.usesRel = false := by
  unfold regionBin binSemR regionStart regionStop
  cases a.within
  · simp only [Bool.false_eq_true, if_false]
    cases a.stop <;> cases a.start <;> exact ⟨[], rfl, rfl, by simp⟩
  · simp only [if_true]
    cases a.start with
    | none => cases a.stop <;> exact ⟨[], rfl, rfl, by simp⟩
    | some s =>
      cases a.stop with
      | none => exact ⟨[], rfl, rfl, by simp⟩
      | some e =>
        show ∃ bs, bindConds (match binClause s e with
              | some bs => (some (Cond.orEqP (ColRef.feat false FCol.bin) bs.length true), List.map SqlArg.int bs)
              | none => (none, [])).1.toList (match binClause s e with
              | some bs => (some (Cond.orEqP (ColRef.feat false FCol.bin) bs.length true), List.map SqlArg.int bs)
              | none => (none, [])).2 = some bs ∧ bs.all (evalB j) = binSemCore s e j.row ∧ _
        rw [← binClause_sem s e j.row]
        cases hb : binClause s e with
        | none => simp only [hb]; exact ⟨[], rfl, rfl, by simp⟩
        | some bl =>
          have hne := binClause_ne_nil s e bl hb
          simp only [hb]
          refine ⟨[.isIn (.feat false .bin) (bl.map .int)], ?_, ?_, ?_⟩
          · have e1 : List.drop bl.length (List.map SqlArg.int bl) = [] := by
              apply List.drop_eq_nil_of_le; simp
            have e2 : List.take bl.length (List.map SqlArg.int bl) = List.map SqlArg.int bl := by
              apply List.take_of_length_le; simp
            simp [Option.toList, bindConds_cons, bindCond, e1, e2, bindConds]
          · simp only [List.all_cons, List.all_nil, Bool.and_true, evalB, colVal, fcolVal, ColRef.affinity, List.any_map,
              binLitSem]
            exact any_lits_bin j.row.bin bl
          · intro c hc
            simp only [Option.toList, List.mem_singleton] at hc
            subst hc
            simp only [Cond.syntaxOk, Cond.usesRel, decide_eq_true_eq, and_true]
            cases bl with
            | nil => exact absurd rfl hne
            | cons _ _ => simp


theorem ft_bind_sem (a : RegionArgs) (j : JRow) (hne : a.featuretype ≠ some []) :
    ∃ bs, bindConds (regionFt a).1.toList (regionFt a).2 = some bs ∧ bs.all (evalB j) = ftSemR a j.row ∧
      ∀ c ∈ (regionFt a).1.toList, c.syntaxOk = true ∧ c.usesRel = false := by
  unfold regionFt ftSemR
  cases hf : a.featuretype with
  | none => exact ⟨[], rfl, rfl, by simp⟩
  | some fts =>
    simp only
    refine ⟨[.isIn (.feat false .featuretype) (fts.map .text)], ?_, ?_, ?_⟩
    · have e1 : List.drop fts.length (List.map SqlArg.text fts) = [] := by
        apply List.drop_eq_nil_of_le; simp
      have e2 : List.take fts.length (List.map SqlArg.text fts) = List.map SqlArg.text fts := by
        apply List.take_of_length_le; simp
      simp [Option.toList, bindConds_cons, bindCond, e1, e2, bindConds]
    · simp only [List.all_cons, List.all_nil, Bool.and_true, evalB, colVal, fcolVal, ColRef.affinity]
      exact any_text_contains fts j.row.ftype
    · intro c hc
      simp only [Option.toList, List.mem_singleton] at hc
      subst hc
      simp only [Cond.syntaxOk, Cond.usesRel, decide_eq_true_eq, and_true]
      cases fts with
      | nil => exact absurd hf hne
      | cons _ _ => simp


theorem ft_bind_only (a : RegionArgs) (j : JRow) :
    ∃ bs, bindConds (regionFt a).1.toList (regionFt a).2 = some bs ∧ bs.all (evalB j) = ftSemR a j.row := by
  unfold regionFt ftSemR
  cases a.featuretype with
  | none => exact ⟨[], rfl, rfl⟩
  | some fts =>
    simp only
    refine ⟨[.isIn (.feat false .featuretype) (fts.map .text)], ?_, ?_⟩
    · have e1 : List.drop fts.length (List.map SqlArg.text fts) = [] := by
        apply List.drop_eq_nil_of_le; simp
      have e2 : List.take fts.length (List.map SqlArg.text fts) = List.map SqlArg.text fts := by
        apply List.take_of_length_le; simp
      simp [Option.toList, bindConds_cons, bindCond, e1, e2, bindConds]
    · simp only [List.all_cons, List.all_nil, Bool.and_true, evalB, colVal, fcolVal, ColRef.affinity]
      exact any_text_contains fts j.row.ftype

theorem strand_bind_sem (a : RegionArgs) (j : JRow) :
    ∃ bs, bindConds (regionStrand a).1.toList (regionStrand a).2 = some bs ∧ bs.all (evalB j) = strandSemR a j.row ∧
      ∀ c ∈ (regionStrand a).1.toList, c.syntaxOk = true ∧ c.usesRel = false := by
  unfold regionStrand strandSemR
  cases a.strand with
  | none => exact ⟨[], rfl, rfl, by simp⟩
  | some st =>
    refine ⟨[.eq (.feat false .strand) (.text st)], rfl, ?_, by simp [Cond.syntaxOk, Cond.usesRel]⟩
    simp [evalB, colVal, fcolVal, ColRef.affinity, coerce, eqVal_text]

theorem pos_ok (a : RegionArgs) : ∀ c ∈ (regionPos a).1, c.syntaxOk = true ∧ c.usesRel = false := by
  unfold regionPos regionStart regionStop regionStartOp regionEndOp
  cases a.within <;> simp only [Bool.false_eq_true, if_false, if_true] <;>
    cases a.seqid <;> cases truthy a.start <;> cases truthy a.stop <;>
    simp [Cond.syntaxOk, Cond.usesRel]

theorem pos_ne_nil (a : RegionArgs) (h : a.seqid ≠ none ∨ truthy a.start ≠ none ∨ truthy a.stop ≠ none) :
    (regionPos a).1.isEmpty = false := by
  unfold regionPos regionStart regionStop regionStartOp regionEndOp
  cases a.within <;> simp only [Bool.false_eq_true, if_false, if_true] <;>
    cases hs : a.seqid <;> cases h1 : truthy a.start <;> cases h2 : truthy a.stop <;>
    simp_all

/-- the binding of a `region` statement does not depend on the row -/
theorem bind_indep (cs : List Cond) (as : List SqlArg) (P : JRow → List BCond → Prop)
    (h : ∀ j, ∃ bs, bindConds cs as = some bs ∧ P j bs) : ∃ bs, bindConds cs as = some bs ∧ ∀ j, P j bs := by
  cases hb : bindConds cs as with
  | none =>
    obtain ⟨bs, h1, _⟩ := h { rowid := 0, row := ⟨[], [], [], [], none, none, [], [], [], [], [], none⟩, rel := none }
    rw [hb] at h1; cases h1
  | some bs =>
    refine ⟨bs, rfl, ?_⟩
    intro j
    obtain ⟨bs', h1, h2⟩ := h j
    rw [hb] at h1
    simp only [Option.some.injEq] at h1
    subst h1
    exact h2


/-- the arguments of a `region` statement bind, in text order, to conditions whose conjunction is the
meaning-level predicate `Interface.regionMatches` -/
theorem region_bind (a : RegionArgs) :
    ∃ b, Sql.bind (regionAst a).1 (regionAst a).2 = some b ∧ b.join = none ∧ b.distinct = false ∧ b.order = none ∧
      ∀ j : JRow, b.conds.all (evalB j) = regionMatches a j.row := by
  obtain ⟨b1, hb1, hs1⟩ := bind_indep _ _ (fun j bs => bs.all (evalB j) = (seqSem a j.row && coordSem a j.row))
    (pos_bind_sem a)
  obtain ⟨b2, hb2, hs2⟩ := bind_indep _ _ (fun j bs => bs.all (evalB j) = binSemR a j.row)
    (fun j => by obtain ⟨bs, h1, h2, _⟩ := bin_bind_sem a j; exact ⟨bs, h1, h2⟩)
  obtain ⟨b3, hb3, hs3⟩ := bind_indep _ _ (fun j bs => bs.all (evalB j) = ftSemR a j.row)
    (ft_bind_only a)
  obtain ⟨b4, hb4, hs4⟩ := bind_indep _ _ (fun j bs => bs.all (evalB j) = strandSemR a j.row)
    (fun j => by obtain ⟨bs, h1, h2, _⟩ := strand_bind_sem a j; exact ⟨bs, h1, h2⟩)
  have hbind : bindConds ((regionPos a).1 ++ (regionBin a).1.toList ++ (regionFt a).1.toList ++ (regionStrand a).1.toList)
      ((regionPos a).2 ++ (regionBin a).2 ++ (regionFt a).2 ++ (regionStrand a).2) = some (b1 ++ b2 ++ b3 ++ b4) :=
    bindConds_append _ _ _ _ _ _ (bindConds_append _ _ _ _ _ _ (bindConds_append _ _ _ _ _ _ hb1 hb2) hb3) hb4
  refine ⟨{ distinct := false, join := none, conds := b1 ++ b2 ++ b3 ++ b4, order := none }, ?_, rfl, rfl, rfl, ?_⟩
  · unfold Sql.bind regionAst
    simp only [SqlQuery.core, hbind, Option.map_some]
  · intro j
    simp only
    rw [List.all_append, List.all_append, List.all_append, hs1, hs2, hs3, hs4, regionMatches_eq]

/-- **what `eval` computes for the statement of `region`** -/
theorem eval_region (db : Db) (a : RegionArgs) (hx : RegionArgs.executable a) :
    eval (regionAst a).1 (regionAst a).2 db = .ok ((indexed db.features).filter (fun p => regionMatches a p.2)) := by
  obtain ⟨hpos, hft⟩ := hx
  obtain ⟨b1, hb1, hs1⟩ := bind_indep _ _ (fun j bs => bs.all (evalB j) = (seqSem a j.row && coordSem a j.row))
    (pos_bind_sem a)
  obtain ⟨b2, hb2, hs2⟩ := bind_indep _ _ (fun j bs => bs.all (evalB j) = binSemR a j.row)
    (fun j => by obtain ⟨bs, h1, h2, _⟩ := bin_bind_sem a j; exact ⟨bs, h1, h2⟩)
  obtain ⟨b3, hb3, hs3⟩ := bind_indep _ _ (fun j bs => bs.all (evalB j) = ftSemR a j.row)
    (fun j => by obtain ⟨bs, h1, h2, _⟩ := ft_bind_sem a j hft; exact ⟨bs, h1, h2⟩)
  obtain ⟨b4, hb4, hs4⟩ := bind_indep _ _ (fun j bs => bs.all (evalB j) = strandSemR a j.row)
    (fun j => by obtain ⟨bs, h1, h2, _⟩ := strand_bind_sem a j; exact ⟨bs, h1, h2⟩)
  have hbind : bindConds ((regionPos a).1 ++ (regionBin a).1.toList ++ (regionFt a).1.toList ++ (regionStrand a).1.toList)
      ((regionPos a).2 ++ (regionBin a).2 ++ (regionFt a).2 ++ (regionStrand a).2) = some (b1 ++ b2 ++ b3 ++ b4) :=
    bindConds_append _ _ _ _ _ _ (bindConds_append _ _ _ _ _ _ (bindConds_append _ _ _ _ _ _ hb1 hb2) hb3) hb4
  have j0 : JRow := { rowid := 0, row := ⟨[], [], [], [], none, none, [], [], [], [], [], none⟩, rel := none }
  have hok : ∀ c ∈ ((regionPos a).1 ++ (regionBin a).1.toList ++ (regionFt a).1.toList ++ (regionStrand a).1.toList),
      c.syntaxOk = true ∧ c.usesRel = false := by
    intro c hc
    simp only [List.mem_append] at hc
    rcases hc with ((hc | hc) | hc) | hc
    · exact pos_ok a c hc
    · obtain ⟨_, _, _, h⟩ := bin_bind_sem a j0; exact h c hc
    · obtain ⟨_, _, _, h⟩ := ft_bind_sem a j0 hft; exact h c hc
    · obtain ⟨_, _, _, h⟩ := strand_bind_sem a j0; exact h c hc
  unfold eval
  have hacc : (regionAst a).1.accepted = true := by
    unfold SqlQuery.accepted regionAst
    simp only [SqlQuery.core, Bool.and_eq_true, List.all_eq_true, Bool.or_eq_true, Bool.not_eq_true']
    refine ⟨⟨⟨fun c hc => (hok c hc).1, Or.inr ?_⟩, trivial⟩, ?_⟩
    · rw [List.any_eq_false]
      intro c hc
      simp [(hok c hc).2]
    · simp [pos_ne_nil a hpos]
  rw [hacc]
  unfold Sql.bind regionAst
  simp only [SqlQuery.core, hbind, Option.map_some, Bool.not_true, Bool.false_eq_true, if_false]
  rw [product_none, filter_jrow]
  congr 2
  funext p
  rw [List.all_append, List.all_append, List.all_append, hs1, hs2, hs3, hs4, regionMatches_eq]
  rfl


/-! ### counts and distinct lists -/

theorem dedup_fold (l acc : List Str) :
    l.foldl (fun acc x => if acc.contains x then acc else acc ++ [x]) acc =
      acc ++ (distinct l).filter (fun x => !acc.contains x) := by
  induction l generalizing acc with
  | nil => simp [distinct]
  | cons a t ih =>
    simp only [List.foldl_cons, distinct]
    by_cases ha : acc.contains a = true
    · simp only [ha, if_true, List.filter_cons, Bool.not_true, Bool.false_eq_true, if_false]
      rw [ih, List.filter_filter]
      congr 1
      apply List.filter_congr
      intro x _
      cases hx : acc.contains x
      · have : x ≠ a := by
          intro e; subst e; rw [ha] at hx; cases hx
        simp [this]
      · simp
    · have ha' : acc.contains a = false := by simpa using ha
      simp only [ha', Bool.false_eq_true, if_false, List.filter_cons, Bool.not_false, if_true]
      rw [ih, List.filter_filter, List.append_assoc]
      congr 1
      simp only [List.singleton_append, List.cons.injEq, true_and]
      apply List.filter_congr
      intro x _
      cases hx : acc.contains x
      · by_cases hxa : x = a
        · simp [hxa]
        · have : (x ∈ acc) = False := by simpa using hx
          simp [hxa, this]
      · have : (x ∈ acc) = True := by simpa using hx
        simp [this]

theorem dedup_eq_distinct (l : List Str) : dedup l = distinct l := by
  unfold dedup
  rw [dedup_fold]
  simp

theorem distinct_map_text (l : List Str) : distinct (l.map SqlVal.text) = (distinct l).map SqlVal.text := by
  induction l with
  | nil => rfl
  | cons a t ih =>
    simp only [List.map_cons, distinct, ih, List.filter_map]
    congr 2
    apply List.filter_congr
    intro x _
    simp

theorem accepted_count (b : Bool) : (SqlQuery.count b).accepted = true := by cases b <;> rfl
theorem accepted_distinctCol (c : FCol) : (SqlQuery.distinctCol c).accepted = true := rfl

theorem eval_count_all (db : Db) : evalCount false [] db = .ok db.features.length := by
  unfold evalCount eval
  simp only [accepted_count, Sql.bind, SqlQuery.core, Bool.false_eq_true, if_false, bindConds, Option.map_some,
    Bool.not_true, List.all_nil, product_none, Except.map]
  rw [List.filter_eq_self.mpr (by intros; rfl)]
  simp [indexed]

theorem eval_count_type (db : Db) (t : Str) :
    evalCount true [.text t] db = .ok (db.features.filter (fun r => r.ftype = t)).length := by
  unfold evalCount eval
  simp only [accepted_count, Sql.bind, SqlQuery.core, if_true, bindConds_cons, bindCond, bindConds, Option.map_some,
    Bool.not_true, Bool.false_eq_true, if_false, product_none, Except.map]
  rw [filter_jrow]
  have := GffProofs.C11.filter_indexed db.features (fun r => decide (r.ftype = t))
  rw [← this, List.length_map]
  congr 3
  funext p
  simp [evalB, colVal, fcolVal, ColRef.affinity, coerce, eqVal_text, jrow]

theorem eval_distinctCol_text (db : Db) (c : FCol) (f : Row → Str) (hc : ∀ n r, fcolVal n r c = .text (f r)) :
    evalDistinctCol c db = .ok ((dedup (db.features.map f)).map SqlVal.text) := by
  unfold evalDistinctCol eval
  simp only [accepted_distinctCol, Sql.bind, SqlQuery.core, bindConds, Option.map_some,
    Bool.not_true, Bool.false_eq_true, if_false, List.all_nil, product_none, Except.map]
  rw [dedup_eq_distinct, ← distinct_map_text]
  congr 2
  rw [List.filter_eq_self.mpr (by intros; rfl)]
  simp only [List.map_map]
  have h1 := GffProofs.C11.indexed_map_snd db.features
  conv => rhs; rw [← h1]
  simp only [List.map_map]
  apply List.map_congr_left
  intro p _
  simp [hc, jrow]


end GffProofs.C11Sql
