/-
  `Parser.splitInfer` cut into its stages (definitionally equal to the model).
-/
import GffModel.Grammar

namespace GffProofs.C07
open GffModel GffModel.Parser GffModel.Grammar

/-- stages (i) and (ii): trailing `;`, field separator -/
def frontStage (s : Str) : List Str × Dialect :=
  let d := { Dialect.default with order := [] }
  let (s, d) := if s.getLast? == some ';' then (s.dropLast, { d with trailingSemicolon := true }) else (s, d)
  let p1 := Str.split " ; ".toList s
  let p2 := Str.split "; ".toList s
  let p3 := Str.split ";".toList s
  if p1.length > 1 then (p1, { d with fieldSep := " ; ".toList })
  else if p2.length > 1 then (p2, { d with fieldSep := "; ".toList })
  else if p3.length > 1 then (p3, { d with fieldSep := ";".toList })
  else (p3, d)

/-- stage (iv), `key value` style: the pieces handed to `headRest` -/
def spacePieces (parts : List Str) : List (List Str) :=
  parts.map (fun p =>
        let p := match p with | ';' :: t => t | _ => p
        Str.split [' '] (Str.strip p))

def spaceD (parts : List Str) (d : Dialect) : Dialect :=
  let d := { d with kvSep := [' '] }
  let lead := parts.any (fun p => p.head? == some ';')
  if lead then { d with leadingSemicolon := true } else d

def eqD (d : Dialect) : Dialect := { d with fmt := gff3, kvSep := ['='] }

/-- the body of the loop over the items, after `keyVal` -/
def stepPure (acc : Attrs × Dialect) (kv : Str × Str) : Attrs × Dialect :=
  let (quals, d) := acc
  let (key, val) := kv
  let (quals, d) :=
    if quals.contains key then (quals, { d with repeatedKeys := true }) else (Dict.set quals key [], d)
  let (val, d) := if isQuotedVal val then (stripQuotes val, { d with quoted := true }) else (val, d)
  let quals :=
    if !val.isEmpty then
      let cur := (quals.get? key).getD []
      if d.repeatedKeys then Dict.set quals key (cur ++ [val])
      else
        let vals := Str.split [','] val
        if vals.any (fun i => i.head? == some ' ') then Dict.set quals key (cur ++ [val])
        else Dict.set quals key (cur ++ vals)
    else quals
  (quals, { d with order := d.order ++ [key] })

def stepO (acc : Attrs × Dialect) (item : List Str) : Py (Attrs × Dialect) := do
      let (quals, d) := acc
      let (key, val) ← keyVal d.kvSep item
      let (quals, d) :=
        if quals.contains key then (quals, { d with repeatedKeys := true }) else (Dict.set quals key [], d)
      let (val, d) := if isQuotedVal val then (stripQuotes val, { d with quoted := true }) else (val, d)
      let quals :=
        if !val.isEmpty then
          let cur := (quals.get? key).getD []
          if d.repeatedKeys then Dict.set quals key (cur ++ [val])
          else
            let vals := Str.split [','] val
            if vals.any (fun i => i.head? == some ' ') then Dict.set quals key (cur ++ [val])
            else Dict.set quals key (cur ++ vals)
        else quals
      pure (quals, { d with order := d.order ++ [key] })

theorem stepO_eq (acc : Attrs × Dialect) (item : List Str) (kv : Str × Str)
    (h : keyVal acc.2.kvSep item = .ok kv) : stepO acc item = .ok (stepPure acc kv) := by
  obtain ⟨q, d⟩ := acc
  unfold stepO
  simp only [] at h
  simp only [h]; rfl

/-- stages (vi) and (vii) -/
def finishStage (quals : Attrs) (d : Dialect) (ignoreEsc : Bool) : Attrs × Dialect :=
  let d := if d.kvSep = [' '] && d.quoted then { d with fmt := gtf } else d
  (unquoteQuals quals d ignoreEsc, d)

def tailStage (parts : List Str) (d : Dialect) (ignoreEsc : Bool) : Py (Attrs × Dialect) := do
  let p0 ← match parts with | [] => Except.error PyErr.index | p :: _ => pure p
  let (keyVals, d) : List (List Str) × Dialect ←
    if matchesKw p0 then
      pure (parts.map (Str.split ['=']), eqD d)
    else do
      let kv ← (spacePieces parts).mapM headRest
      pure (kv, spaceD parts d)
  let (quals, d) ← keyVals.foldlM stepO (([] : Attrs), d)
  pure (finishStage quals d ignoreEsc)

theorem splitInfer_eq (s : Str) (ie : Bool) :
    splitInfer s ie = tailStage (frontStage s).1 (frontStage s).2 ie := by
  rfl

end GffProofs.C07
