/-
  C11Sql — lemmas about the TEXT of the generated statements: number of `?`, characters of the pieces,
  `render (AST) = text`.
-/
import GffModel.Sql

namespace GffProofs.C11Sql
open GffModel GffModel.Sql GffModel.Interface

/-! ### characters of rendered integers -/

theorem natStr_chars (n : Nat) : ∀ c ∈ (toString n).toList, c.isDigit = true := by
  intro c hc
  rw [Nat.toString_eq_repr, Nat.toList_repr] at hc
  exact Nat.isDigit_of_mem_toDigits (by decide) (by decide) hc

theorem intToStr_chars (i : Int) : ∀ c ∈ Str.intToStr i, c = '-' ∨ c.isDigit = true := by
  intro c hc
  unfold Str.intToStr at hc
  cases i with
  | ofNat m =>
    right
    have : toString (Int.ofNat m) = toString m := rfl
    rw [this] at hc
    exact natStr_chars m c hc
  | negSucc m =>
    have : toString (Int.negSucc m) = "-" ++ toString (m + 1) := rfl
    rw [this] at hc
    simp at hc
    rcases hc with h | h
    · left; exact h
    · right; exact Nat.isDigit_of_mem_toDigits (by decide) (by decide) h

/-- a character that is neither `-` nor a digit does not occur in a rendered integer -/
theorem not_mem_intToStr (c : Char) (h1 : c ≠ '-') (h2 : c.isDigit = false) (i : Int) : c ∉ Str.intToStr i := by
  intro hc
  rcases intToStr_chars i c hc with h | h
  · exact h1 h
  · rw [h2] at h; exact Bool.noConfusion h

/-! ### `Str.join` -/

theorem join_cons_cons (sep p q : Str) (rest : List Str) :
    Str.join sep (p :: q :: rest) = p ++ sep ++ Str.join sep (q :: rest) := rfl

theorem mem_join (c : Char) (sep : Str) (l : List Str) (h : c ∈ Str.join sep l) :
    c ∈ sep ∨ ∃ p ∈ l, c ∈ p := by
  induction l with
  | nil => simp [Str.join] at h
  | cons p rest ih =>
    cases rest with
    | nil => right; exact ⟨p, by simp, by simpa [Str.join] using h⟩
    | cons q rest =>
      rw [join_cons_cons] at h
      simp only [List.mem_append] at h
      rcases h with (h | h) | h
      · right; exact ⟨p, by simp, h⟩
      · left; exact h
      · rcases ih h with h | ⟨x, hx, hc⟩
        · left; exact h
        · right; exact ⟨x, List.mem_cons_of_mem _ hx, hc⟩

theorem count_join (c : Char) (sep : Str) (l : List Str) :
    (Str.join sep l).count c = (l.map (List.count c)).sum + (l.length - 1) * sep.count c := by
  induction l with
  | nil => simp [Str.join]
  | cons p rest ih =>
    cases rest with
    | nil => simp [Str.join]
    | cons q rest =>
      rw [join_cons_cons]
      simp only [List.count_append, ih, List.map_cons, List.sum_cons, List.length_cons]
      have : (rest.length + 1 + 1 - 1) * List.count c sep = List.count c sep + (rest.length + 1 - 1) * List.count c sep := by
        simp only [Nat.add_sub_cancel]; rw [Nat.add_mul]; omega
      omega

theorem sum_replicate (n k : Nat) : (List.replicate n k).sum = n * k := by
  induction n with
  | zero => simp
  | succ n ih => simp [List.replicate_succ, ih, Nat.add_mul]; omega

theorem count_join_replicate (c : Char) (sep p : Str) (n : Nat) :
    (Str.join sep (List.replicate n p)).count c = n * p.count c + (n - 1) * sep.count c := by
  rw [count_join]
  simp

theorem qcount_append (a b : Str) : qcount (a ++ b) = qcount a + qcount b := by
  simp [qcount]

theorem qcount_placeholders (n : Nat) : qcount (placeholders n) = n := by
  unfold qcount placeholders
  rw [count_join_replicate]
  simp

theorem qcount_intToStr (i : Int) : qcount (Str.intToStr i) = 0 := by
  unfold qcount
  exact List.count_eq_zero_of_not_mem (not_mem_intToStr '?' (by decide) (by decide) i)

theorem qcount_join_ints (l : List Int) : qcount (Str.join [','] (l.map Str.intToStr)) = 0 := by
  unfold qcount
  apply List.count_eq_zero_of_not_mem
  intro h
  rcases mem_join _ _ _ h with h | ⟨p, hp, hc⟩
  · simp at h
  · rcases List.mem_map.mp hp with ⟨i, _, rfl⟩
    exact not_mem_intToStr '?' (by decide) (by decide) i hc

/-! ### number of `?` in the slots of `make_query` -/

theorem qcount_selectText : qcount selectText = 0 := by decide +kernel

theorem qcount_cons (c : Char) (s : Str) : qcount (c :: s) = (if c = '?' then 1 else 0) + qcount s := by
  unfold qcount
  rw [List.count_cons]
  by_cases h : c = '?' <;> simp [h]; omega

theorem qcount_nil : qcount [] = 0 := rfl

theorem qcount_ftSlot (ft : Ft) : qcount (ftSlot ft).1 = (ftSlot ft).2.length := by
  cases ft with
  | none => rfl
  | str s =>
    simp only [ftSlot]
    split
    · rfl
    · show qcount "features.featuretype = ?".toList = 1
      decide
  | coll l =>
    simp only [ftSlot]
    split
    · rfl
    · simp only [qcount_append, qcount_placeholders, List.length_map]
      have e1 : qcount "features.featuretype IN  (".toList = 0 := by decide
      have e2 : qcount [')'] = 0 := by decide
      omega

theorem qcount_strandSlot (st : Option Str) : qcount (strandSlot st).1 = (strandSlot st).2.length := by
  cases st with
  | none => rfl
  | some s =>
    simp only [strandSlot]
    split
    · rfl
    · show qcount "features.strand = ?".toList = 1
      decide

theorem qcount_limitSlot (lim : Limit) (w : Bool) (t : Str) (as : List SqlArg)
    (h : limitSlot lim w = .ok (t, as)) : qcount t = as.length := by
  unfold limitSlot at h
  simp only [Bind.bind, Except.bind, pure, Except.pure] at h
  split at h
  · cases h
  · rename_i parts _
    cases parts with
    | none =>
      simp only [Except.ok.injEq, Prod.mk.injEq] at h
      rw [← h.1, ← h.2]; rfl
    | some p =>
      obtain ⟨seqid, start, stop⟩ := p
      simp only at h
      split at h
      · cases h
      · split at h
        · cases h
        · have key : ∀ (bs : Option (List Int)) (txt : Str) (args : List SqlArg), qcount txt = args.length →
              (match bs with
               | some bs => (Except.ok (txt ++ " AND features.bin IN (".toList ++ Str.join [','] (bs.map Str.intToStr) ++ [')'], args) : Py (Str × List SqlArg))
               | none => Except.ok (txt, args)) = .ok (t, as) → qcount t = as.length := by
            intro bs txt args hq hb
            cases bs with
            | none =>
              simp only [Except.ok.injEq, Prod.mk.injEq] at hb
              rw [← hb.1, ← hb.2]; exact hq
            | some bs =>
              simp only [Except.ok.injEq, Prod.mk.injEq] at hb
              rw [← hb.1, ← hb.2]
              simp only [qcount_append, qcount_join_ints, hq]
              have e1 : qcount " AND features.bin IN (".toList = 0 := by decide
              have e2 : qcount [')'] = 0 := by decide
              omega
          cases w with
          | true => exact key _ _ _ (show qcount limitWithinText = 3 by decide +kernel) h
          | false => exact key _ _ _ (show qcount limitOverlapText = 3 by decide +kernel) h

theorem qcount_prefixSlot (w : Bool) (s : Str) : qcount (prefixSlot w s).1 = qcount s := by
  unfold prefixSlot
  split
  · rfl
  · split
    · simp only [qcount_append]
      have : qcount "AND ".toList = 0 := by decide
      omega
    · simp only [qcount_append]
      have : qcount "WHERE ".toList = 0 := by decide
      omega

theorem qcount_formatQuery (sel other extra ft lim st ob : Str) :
    qcount (formatQuery sel other extra ft lim st ob) =
      qcount sel + qcount other + qcount extra + qcount ft + qcount lim + qcount st + qcount ob := by
  unfold formatQuery
  simp only [qcount_append]
  have : qcount [' '] = 0 := by decide
  omega

/-- the ORDER BY text is free of `?` unless an unvalidated bare string brings one -/
def OrderBy.noQ : OrderBy → Prop
  | .str s => qcount s = 0
  | _ => True

theorem qcount_lengthSubst_valid : ∀ k ∈ validOrderBy, qcount (lengthSubst k) = 0 := by decide

theorem qcount_orderText (terms : List Str) (rev : Bool) (h : ∀ t ∈ terms, qcount t = 0) :
    qcount (orderText terms rev) = 0 := by
  unfold orderText
  simp only [qcount_append]
  have h1 : qcount (Str.join [','] terms) = 0 := by
    unfold qcount
    apply List.count_eq_zero_of_not_mem
    intro hm
    rcases mem_join _ _ _ hm with hm | ⟨p, hp, hc⟩
    · simp at hm
    · have := h p hp
      unfold qcount at this
      exact (List.count_eq_zero.mp this) hc
  rw [h1]
  have e1 : qcount "ORDER BY ".toList = 0 := by decide
  have e2 : qcount [' '] = 0 := by decide
  cases rev
  · have : qcount "ASC".toList = 0 := by decide
    simp only [Bool.false_eq_true, if_false]; omega
  · have : qcount "DESC".toList = 0 := by decide
    simp only [if_true]; omega

theorem qcount_orderSlot (ob : OrderBy) (rev : Bool) (t : Str) (hn : OrderBy.noQ ob)
    (h : orderSlot ob rev = .ok t) : qcount t = 0 := by
  cases ob with
  | none => simp only [orderSlot, Except.ok.injEq] at h; subst h; rfl
  | str s =>
    simp only [orderSlot] at h
    split at h
    · simp only [Except.ok.injEq] at h; subst h; rfl
    · simp only [Except.ok.injEq] at h
      rw [← h]
      apply qcount_orderText
      intro t ht
      simp only [List.mem_singleton] at ht
      subst ht
      unfold lengthSubst
      split
      · decide
      · exact hn
  | tuple l =>
    simp only [orderSlot] at h
    split at h
    · simp only [Except.ok.injEq] at h; subst h; rfl
    · split at h
      · rename_i hall
        simp only [Except.ok.injEq] at h
        rw [← h]
        apply qcount_orderText
        intro t ht
        rcases List.mem_map.mp ht with ⟨k, hk, rfl⟩
        have := List.all_eq_true.mp hall k hk
        exact qcount_lengthSubst_valid k (by simpa using this)
      · cases h

/-- **lock-step, counting form** (text level, ALL arguments incl. arbitrary `other` / `extra` strings): whenever
`make_query` succeeds, its text contains exactly as many `?` as it returns arguments -/
theorem makeQueryCore_qcount (other extra : Str) (args : List SqlArg) (limit : Limit) (strand : Option Str)
    (ft : Ft) (ob : OrderBy) (rev within : Bool) (t : Str) (as : List SqlArg) (hn : OrderBy.noQ ob)
    (h : makeQueryCore other extra args limit strand ft ob rev within = .ok (t, as)) :
    qcount t = as.length := by
  unfold makeQueryCore at h
  simp only [Bind.bind, Except.bind, pure, Except.pure] at h
  split at h
  · cases h
  · rename_i hlen
    cases hl : limitSlot limit within with
    | error e => rw [hl] at h; cases h
    | ok la =>
      obtain ⟨lim, a2⟩ := la
      rw [hl] at h
      cases ho : orderSlot ob rev with
      | error e => rw [ho] at h; cases h
      | ok obt =>
        rw [ho] at h
        simp only [Except.ok.injEq, Prod.mk.injEq] at h
        rw [← h.1, ← h.2]
        simp only [qcount_formatQuery, qcount_prefixSlot, qcount_selectText, qcount_ftSlot, qcount_strandSlot,
          qcount_limitSlot limit within lim a2 hl, qcount_orderSlot ob rev obt hn ho, List.length_append]
        have : args.length = qcount extra + qcount other := by
          rw [← qcount_append]
          exact Classical.byContradiction (fun hne => hlen hne)
        omega

/-! ### `render (AST) = text`, slot by slot -/

theorem pyName_of_ofPyName (s : Str) (k : OrderKey) (h : OrderKey.ofPyName s = some k) : k.pyName = s := by
  unfold OrderKey.ofPyName at h
  have := List.find?_some h
  simpa using this

theorem render_key (k : OrderKey) : k.render = lengthSubst k.pyName := by
  cases k with
  | col c => cases c <;> decide
  | fileOrder => decide
  | length => decide

theorem ofPyName_length : OrderKey.ofPyName "length".toList = some .length := by decide

theorem ofPyName_render (s : Str) : (OrderTerm.ofPyName s).render = lengthSubst s := by
  unfold OrderTerm.ofPyName
  cases h : OrderKey.ofPyName s with
  | some k =>
    simp only [OrderTerm.render]
    rw [render_key, pyName_of_ofPyName s k h]
  | none =>
    simp only [OrderTerm.render]
    unfold lengthSubst
    split
    · rename_i hs
      rw [hs, ofPyName_length] at h
      cases h
    · rfl

theorem ftSlot_eq (ft : Ft) : ftSlot ft = (optRender (ftCond ft).1, (ftCond ft).2) := by
  cases ft with
  | none => rfl
  | str s =>
    simp only [ftSlot, ftCond]
    split
    · rfl
    · rfl
  | coll l =>
    simp only [ftSlot, ftCond]
    split
    · rfl
    · rfl

theorem strandSlot_eq (st : Option Str) : strandSlot st = (optRender (strandCond st).1, (strandCond st).2) := by
  cases st with
  | none => rfl
  | some s =>
    simp only [strandSlot, strandCond]
    split <;> rfl

theorem conjRender_within : conjRender [Cond.eqP (.feat true .seqid), .cmpP (.feat true .start) .ge, .cmpP (.feat true .stop) .le] = limitWithinText := by
  decide +kernel
theorem conjRender_overlap : conjRender [Cond.eqP (.feat true .seqid), .cmpP (.feat true .start) .le, .cmpP (.feat true .stop) .ge] = limitOverlapText := by
  decide +kernel

theorem conjRender_snoc (c d : Cond) (cs : List Cond) :
    conjRender ((c :: cs) ++ [d]) = conjRender (c :: cs) ++ " AND ".toList ++ d.render := by
  unfold conjRender
  induction cs generalizing c with
  | nil => simp [Str.join]
  | cons e cs ih =>
    simp only [List.cons_append, List.map_cons, join_cons_cons] at *
    rw [ih e]
    simp [List.append_assoc]

theorem lit1 : " AND features.bin IN (".toList = " AND ".toList ++ ("features.".toList ++ ("bin".toList ++ " IN (".toList)) := by decide

theorem render_binLits (bs : List Int) :
    " AND ".toList ++ (Cond.inLits (.feat true .bin) bs).render =
      " AND features.bin IN (".toList ++ (Str.join [','] (bs.map Str.intToStr) ++ [')']) := by
  rw [lit1]
  show " AND ".toList ++ ("features.".toList ++ "bin".toList ++ " IN (".toList ++ Str.join [','] (bs.map Str.intToStr) ++ [')']) = _
  simp only [List.append_assoc]

def renderLimit (p : List Cond × List SqlArg) : Str × List SqlArg := (conjRender p.1, p.2)

theorem limitSlot_eq (lim : Limit) (w : Bool) : limitSlot lim w = (limitConds lim w).map renderLimit := by
  unfold limitSlot limitConds
  simp only [Bind.bind, Except.bind, pure, Except.pure]
  cases limitParts lim with
  | error e => rfl
  | ok parts =>
    cases parts with
    | none => rfl
    | some p =>
      obtain ⟨seqid, start, stop⟩ := p
      simp only
      cases pyInt start with
      | error e => rfl
      | ok s =>
        simp only
        cases pyInt stop with
        | error e => rfl
        | ok e =>
          simp only
          cases w with
          | true =>
            simp only [if_true]
            cases binClause s e with
            | none => simp only [Except.map, renderLimit, conjRender_within]
            | some bs =>
              simp only [Except.map, renderLimit]
              rw [conjRender_snoc, conjRender_within]
              simp only [List.append_assoc]
              rw [render_binLits]
          | false =>
            simp only [Bool.false_eq_true, if_false]
            cases binClause s e with
            | none => simp only [Except.map, renderLimit, conjRender_overlap]
            | some bs =>
              simp only [Except.map, renderLimit]
              rw [conjRender_snoc, conjRender_overlap]
              simp only [List.append_assoc]
              rw [render_binLits]


def renderOrder : Option (List OrderTerm × Bool) → Str
  | none => []
  | some (ts, desc) => orderText (ts.map OrderTerm.render) desc

theorem map_ofPyName_render (l : List Str) : (l.map OrderTerm.ofPyName).map OrderTerm.render = l.map lengthSubst := by
  simp only [List.map_map]
  apply List.map_congr_left
  intro s _
  exact ofPyName_render s

theorem orderSlot_eq (ob : OrderBy) (rev : Bool) : orderSlot ob rev = (orderAst ob rev).map renderOrder := by
  cases ob with
  | none => rfl
  | str s =>
    simp only [orderSlot, orderAst]
    split
    · rfl
    · simp only [Except.map, renderOrder, List.map_cons, List.map_nil, ofPyName_render]
  | tuple l =>
    simp only [orderSlot, orderAst]
    split
    · rfl
    · split
      · simp only [Except.map, renderOrder, map_ofPyName_render]
      · rfl

theorem qcount_otherText (on to : RCol) : qcount (otherText on to) = 1 := by
  cases on <;> cases to <;> decide +kernel

theorem where_otherText (on to : RCol) :
    Str.containsSub (asciiLower (otherText on to)) "where".toList = true := by
  cases on <;> cases to <;> decide +kernel

theorem qcount_levelText : qcount levelText = 1 := by decide

def Other.text : Other → Str
  | .none => []
  | .join on to => otherText on to
def Extra.text : Extra → Str
  | .none => []
  | .level => levelText

theorem toMq_other (a : SArgs) : a.toMq.other.getD [] = Other.text a.other := by
  cases h : a.other <;> simp [SArgs.toMq, h, Other.text]
theorem toMq_extra (a : SArgs) : a.toMq.extra.getD [] = Extra.text a.extra := by
  cases h : a.extra <;> simp [SArgs.toMq, h, Extra.text]

theorem qcount_other_extra (o : Other) (x : Extra) : qcount (Extra.text x ++ Other.text o) = x.arity + o.arity := by
  rw [qcount_append]
  cases o <;> cases x <;> simp [Other.text, Extra.text, Other.arity, Extra.arity, qcount_otherText, qcount_levelText, qcount_nil]

theorem where_other (o : Other) :
    Str.containsSub (asciiLower (Other.text o)) "where".toList = (match o with | .none => false | .join _ _ => true) := by
  cases o with
  | none => decide
  | join on to => exact where_otherText on to

/-- **the text of `make_query` is the rendering of its AST** (for the `other` / `extra` texts the callers use) -/
theorem makeQuery_eq_render (a : SArgs) :
    makeQuery a.toMq = (makeQueryAst a).map (fun p => (render p.1, p.2)) := by
  unfold makeQuery makeQueryAst makeSelect makeQueryCore
  rw [toMq_other, toMq_extra, qcount_other_extra]
  simp only [Bind.bind, Except.bind, pure, Except.pure, SArgs.toMq]
  by_cases hlen : a.args.length ≠ a.extra.arity + a.other.arity
  · simp only [ne_eq, hlen, not_false_eq_true, ↓reduceIte]; rfl
  · have hlen' : a.args.length = a.extra.arity + a.other.arity := Classical.byContradiction hlen
    simp only [ne_eq, hlen', not_true_eq_false, ↓reduceIte]
    rw [limitSlot_eq, orderSlot_eq, ftSlot_eq, strandSlot_eq, where_other]
    cases limitConds a.limit a.within with
    | error e => rfl
    | ok lc =>
      cases orderAst a.orderBy a.reverse with
      | error e => rfl
      | ok oa =>
        simp only [Except.map, render, Select.render, renderLimit]
        cases ho : a.other <;> cases hx : a.extra <;> cases oa <;> rfl


/-! ### `query.replace("SELECT", "SELECT DISTINCT")` -/

def kwSelect : Str := "SELECT".toList
def kwSelectDistinct : Str := "SELECT DISTINCT".toList
def selectTail : Str :=
  " id, seqid, source, featuretype, start, end, score, strand, frame, attributes, extra, bin, features.rowid as file_order FROM features ".toList

theorem selectText_split : selectText = kwSelect ++ selectTail := by decide +kernel
theorem selectDistinctText_split : selectDistinctText = kwSelectDistinct ++ selectTail := by decide +kernel

theorem replaceGo_skip (old new : Str) (p t : Str) :
    replaceGo old new p.length (p ++ t) = replaceGo old new 0 t := by
  induction p with
  | nil => rfl
  | cons c cs ih => simpa [replaceGo] using ih

theorem select_prefix_false (c : Char) (cs : Str) (h : c ≠ 'S') : kwSelect.isPrefixOf (c :: cs) = false := by
  show List.isPrefixOf ('S' :: "ELECT".toList) (c :: cs) = false
  simp only [List.isPrefixOf, Bool.and_eq_false_imp, beq_iff_eq]
  intro e; exact absurd e.symm h

theorem replaceGo_noS (p t : Str) (h : 'S' ∉ p) :
    replaceGo kwSelect kwSelectDistinct 0 (p ++ t) = p ++ replaceGo kwSelect kwSelectDistinct 0 t := by
  induction p with
  | nil => rfl
  | cons c cs ih =>
    have hc : c ≠ 'S' := fun e => h (by simp [e])
    have hcs : 'S' ∉ cs := fun e => h (List.mem_cons_of_mem _ e)
    show replaceGo kwSelect kwSelectDistinct 0 (c :: (cs ++ t)) = _
    rw [replaceGo, select_prefix_false c _ hc]
    simp only [Bool.false_eq_true, if_false, List.cons_append, ih hcs]

theorem select_prefix_L (l : Str) (h : kwSelect.isPrefixOf l = true) : 'L' ∈ l := by
  rw [List.isPrefixOf_iff_prefix] at h
  obtain ⟨t, rfl⟩ := h
  simp [kwSelect]

theorem replaceGo_noL (t : Str) (h : 'L' ∉ t) : replaceGo kwSelect kwSelectDistinct 0 t = t := by
  induction t with
  | nil => rfl
  | cons c cs ih =>
    have hp : kwSelect.isPrefixOf (c :: cs) = false := by
      cases hh : kwSelect.isPrefixOf (c :: cs) with
      | false => rfl
      | true => exact absurd (select_prefix_L _ hh) h
    rw [replaceGo, hp]
    simp only [Bool.false_eq_true, if_false]
    rw [ih (fun e => h (List.mem_cons_of_mem _ e))]

theorem selectTail_noS : 'S' ∉ selectTail := by decide +kernel

/-- on a statement whose only `SELECT` is the leading keyword, the replacement inserts `DISTINCT` there -/
theorem replaceAll_select (rest : Str) (h : 'L' ∉ rest) :
    replaceAll kwSelect kwSelectDistinct (selectText ++ rest) = selectDistinctText ++ rest := by
  unfold replaceAll
  rw [selectText_split, selectDistinctText_split, List.append_assoc, List.append_assoc]
  show replaceGo kwSelect kwSelectDistinct 0 ('S' :: ("ELECT".toList ++ (selectTail ++ rest))) = _
  rw [replaceGo]
  have hp : kwSelect.isPrefixOf ('S' :: ("ELECT".toList ++ (selectTail ++ rest))) = true := by
    rw [List.isPrefixOf_iff_prefix]
    exact ⟨selectTail ++ rest, rfl⟩
  rw [hp]
  simp only [if_true]
  have : kwSelect.length - 1 = "ELECT".toList.length := by decide
  rw [this, replaceGo_skip, replaceGo_noS _ _ selectTail_noS, replaceGo_noL _ h]


/-! ### no `L` outside the keyword -/

theorem noL_intToStr (i : Int) : 'L' ∉ Str.intToStr i := not_mem_intToStr 'L' (by decide) (by decide) i

theorem noL_join (sep : Str) (l : List Str) (hs : 'L' ∉ sep) (hl : ∀ p ∈ l, 'L' ∉ p) : 'L' ∉ Str.join sep l := by
  intro h
  rcases mem_join _ _ _ h with h | ⟨p, hp, hc⟩
  · exact hs h
  · exact hl p hp hc

theorem noL_placeholders (n : Nat) : 'L' ∉ placeholders n := by
  apply noL_join
  · decide
  · intro p hp
    rw [List.eq_of_mem_replicate hp]
    decide

theorem noL_fcol (c : FCol) : 'L' ∉ c.name := by cases c <;> decide
theorem noL_rcol (c : RCol) : 'L' ∉ c.name := by cases c <;> decide

theorem noL_colRef (c : ColRef) : 'L' ∉ c.render := by
  cases c with
  | feat q c =>
    cases q
    · exact noL_fcol c
    · show 'L' ∉ "features.".toList ++ c.name
      simp only [List.mem_append, not_or]
      exact ⟨by decide, noL_fcol c⟩
  | rel c =>
    show 'L' ∉ "relations.".toList ++ c.name
    simp only [List.mem_append, not_or]
    exact ⟨by decide, noL_rcol c⟩

theorem noL_cmp (op : Cmp) : 'L' ∉ op.render := by cases op <;> decide

theorem noL_cond (c : Cond) : 'L' ∉ c.render := by
  cases c with
  | eqP c =>
    show 'L' ∉ c.render ++ " = ?".toList
    simp only [List.mem_append, not_or]
    exact ⟨noL_colRef c, by decide⟩
  | inP c n =>
    show 'L' ∉ c.render ++ " IN  (".toList ++ placeholders n ++ [')']
    simp only [List.mem_append, not_or]
    exact ⟨⟨⟨noL_colRef c, by decide⟩, noL_placeholders n⟩, by decide⟩
  | cmpP c op =>
    show 'L' ∉ c.render ++ [' '] ++ op.render ++ " ?".toList
    simp only [List.mem_append, not_or]
    exact ⟨⟨⟨noL_colRef c, by decide⟩, noL_cmp op⟩, by decide⟩
  | inLits c lits =>
    show 'L' ∉ c.render ++ " IN (".toList ++ Str.join [','] (lits.map Str.intToStr) ++ [')']
    simp only [List.mem_append, not_or]
    refine ⟨⟨⟨noL_colRef c, by decide⟩, ?_⟩, by decide⟩
    apply noL_join _ _ (by decide)
    intro p hp
    rcases List.mem_map.mp hp with ⟨i, _, rfl⟩
    exact noL_intToStr i
  | overlapLits hi lo =>
    show 'L' ∉ "(start <= ".toList ++ Str.intToStr hi ++ " AND end >= ".toList ++ Str.intToStr lo ++ [')']
    simp only [List.mem_append, not_or]
    exact ⟨⟨⟨⟨by decide, noL_intToStr hi⟩, by decide⟩, noL_intToStr lo⟩, by decide⟩
  | orEqP c n spaced =>
    have hb : 'L' ∉ Str.join " or ".toList (List.replicate n (c.render ++ " = ?".toList)) := by
      apply noL_join _ _ (by decide)
      intro p hp
      rw [List.eq_of_mem_replicate hp]
      simp only [List.mem_append, not_or]
      exact ⟨noL_colRef c, by decide⟩
    cases spaced
    · show 'L' ∉ ['('] ++ Str.join " or ".toList (List.replicate n (c.render ++ " = ?".toList)) ++ [')']
      simp only [List.mem_append, not_or]
      exact ⟨⟨by decide, hb⟩, by decide⟩
    · show 'L' ∉ "( ".toList ++ Str.join " or ".toList (List.replicate n (c.render ++ " = ?".toList)) ++ " )".toList
      simp only [List.mem_append, not_or]
      exact ⟨⟨by decide, hb⟩, by decide⟩

theorem noL_optRender (c : Option Cond) : 'L' ∉ optRender c := by
  cases c with
  | none => simp [optRender]
  | some c => exact noL_cond c

theorem noL_conjRender (cs : List Cond) : 'L' ∉ conjRender cs := by
  apply noL_join _ _ (by decide)
  intro p hp
  rcases List.mem_map.mp hp with ⟨c, _, rfl⟩
  exact noL_cond c

theorem noL_prefixSlot (w : Bool) (s : Str) (h : 'L' ∉ s) : 'L' ∉ (prefixSlot w s).1 := by
  unfold prefixSlot
  split
  · exact h
  · split
    · show 'L' ∉ "AND ".toList ++ s
      simp only [List.mem_append, not_or]; exact ⟨by decide, h⟩
    · show 'L' ∉ "WHERE ".toList ++ s
      simp only [List.mem_append, not_or]; exact ⟨by decide, h⟩

theorem noL_otherText (on to : RCol) : 'L' ∉ otherText on to := by
  cases on <;> cases to <;> decide +kernel

theorem noL_orderKey (k : OrderKey) : 'L' ∉ k.render := by
  cases k with
  | col c => exact noL_fcol c
  | fileOrder => decide
  | length => decide

/-- every ORDER BY term is a known key (not an unvalidated text) -/
def AllKeys (ts : List OrderTerm) : Prop := ∀ t ∈ ts, ∃ k, t = OrderTerm.key k

theorem noL_orderText (ts : List OrderTerm) (d : Bool) (h : AllKeys ts) :
    'L' ∉ orderText (ts.map OrderTerm.render) d := by
  unfold orderText
  simp only [List.mem_append, not_or]
  refine ⟨⟨⟨by decide, ?_⟩, by decide⟩, by cases d <;> decide⟩
  apply noL_join _ _ (by decide)
  intro p hp
  rcases List.mem_map.mp hp with ⟨t, ht, rfl⟩
  obtain ⟨k, rfl⟩ := h t ht
  exact noL_orderKey k

/-- `order_by` names a known column: absent, a key name as a string, or a (validated) tuple -/
def OrderBy.known : OrderBy → Prop
  | .str s => s.isEmpty = true ∨ (OrderKey.ofPyName s).isSome = true
  | _ => True

theorem valid_isKey : ∀ k ∈ validOrderBy, (OrderKey.ofPyName k).isSome = true := by decide

theorem ofPyName_key (s : Str) (h : (OrderKey.ofPyName s).isSome = true) : ∃ k, OrderTerm.ofPyName s = .key k := by
  unfold OrderTerm.ofPyName
  cases hh : OrderKey.ofPyName s with
  | none => rw [hh] at h; cases h
  | some k => exact ⟨k, rfl⟩

theorem orderAst_allKeys (ob : OrderBy) (rev : Bool) (ts : List OrderTerm) (d : Bool) (hk : OrderBy.known ob)
    (h : orderAst ob rev = .ok (some (ts, d))) : AllKeys ts ∧ ts ≠ [] ∧ d = rev := by
  cases ob with
  | none => simp [orderAst] at h
  | str s =>
    simp only [orderAst] at h
    split at h
    · cases h
    · rename_i hne
      simp only [Except.ok.injEq, Option.some.injEq, Prod.mk.injEq] at h
      obtain ⟨rfl, rfl⟩ := h
      refine ⟨?_, by simp, rfl⟩
      intro t ht
      simp only [List.mem_singleton] at ht
      subst ht
      rcases hk with hk | hk
      · exact absurd hk hne
      · exact ofPyName_key s hk
  | tuple l =>
    simp only [orderAst] at h
    split at h
    · cases h
    · rename_i hne
      split at h
      · rename_i hall
        simp only [Except.ok.injEq, Option.some.injEq, Prod.mk.injEq] at h
        obtain ⟨rfl, rfl⟩ := h
        refine ⟨?_, ?_, rfl⟩
        · intro t ht
          rcases List.mem_map.mp ht with ⟨k, hk', rfl⟩
          have := List.all_eq_true.mp hall k hk'
          exact ofPyName_key k (valid_isKey k (by simpa using this))
        · intro e
          apply hne
          cases l with
          | nil => rfl
          | cons _ _ => simp at e
      · cases h


/-! ### `_relation` -/

/-- the part of a rendered `make_query` statement after the SELECT list -/
def Select.renderRest (s : Select) : Str :=
  let other := match s.join with | some (on, to) => otherText on to | none => []
  let (extra, w1) := prefixSlot s.join.isSome (optRender s.extra)
  let (ft, w2) := prefixSlot w1 (optRender s.ft)
  let (lim, w3) := prefixSlot w2 (conjRender s.limit)
  let (st, _) := prefixSlot w3 (optRender s.strand)
  [' '] ++ other ++ [' '] ++ extra ++ [' '] ++ ft ++ [' '] ++ lim ++ [' '] ++ st ++ [' '] ++ renderOrder s.order

theorem Select.render_eq (s : Select) :
    s.render = (if s.distinct then selectDistinctText else selectText) ++ Select.renderRest s := by
  unfold Select.render Select.renderRest formatQuery renderOrder
  cases s.order with
  | none => simp only [List.append_assoc]; rfl
  | some o => obtain ⟨ts, d⟩ := o; simp only [List.append_assoc]; rfl

theorem noL_renderRest (s : Select) (h : ∀ ts d, s.order = some (ts, d) → AllKeys ts) : 'L' ∉ Select.renderRest s := by
  unfold Select.renderRest
  simp only [List.mem_append, not_or]
  refine ⟨⟨⟨⟨⟨⟨⟨⟨⟨⟨⟨by decide, ?_⟩, by decide⟩, ?_⟩, by decide⟩, ?_⟩, by decide⟩, ?_⟩, by decide⟩, ?_⟩, by decide⟩, ?_⟩
  · cases s.join with
    | none => simp
    | some p => exact noL_otherText p.1 p.2
  · exact noL_prefixSlot _ _ (noL_optRender _)
  · exact noL_prefixSlot _ _ (noL_optRender _)
  · exact noL_prefixSlot _ _ (noL_conjRender _)
  · exact noL_prefixSlot _ _ (noL_optRender _)
  · cases ho : s.order with
    | none => simp [renderOrder]
    | some o =>
      obtain ⟨ts, d⟩ := o
      exact noL_orderText ts d (h ts d ho)

theorem render_distinct (s : Select) (hd : s.distinct = false) (h : ∀ ts d, s.order = some (ts, d) → AllKeys ts) :
    replaceAll kwSelect kwSelectDistinct (Select.render s) = Select.render { s with distinct := true } := by
  rw [Select.render_eq, Select.render_eq, hd]
  simp only [Bool.false_eq_true, if_false, if_true]
  rw [replaceAll_select _ (noL_renderRest s h)]
  rfl

theorem makeSelect_distinct (a : SArgs) (s : Select) (args : List SqlArg) (h : makeSelect a = .ok (s, args)) :
    s.distinct = false ∧ orderAst a.orderBy a.reverse = .ok s.order := by
  unfold makeSelect at h
  simp only [Bind.bind, Except.bind, pure, Except.pure] at h
  split at h
  · cases h
  · cases hl : limitConds a.limit a.within with
    | error e => rw [hl] at h; cases h
    | ok lc =>
      rw [hl] at h
      cases ho : orderAst a.orderBy a.reverse with
      | error e => rw [ho] at h; cases h
      | ok oa =>
        rw [ho] at h
        simp only [Except.ok.injEq, Prod.mk.injEq] at h
        rw [← h.1]
        exact ⟨rfl, rfl⟩

theorem relation_mq (r : RelArgs) :
    makeQuery { args := r.initArgs, other := some (otherText r.on r.to),
                extra := some (match r.level with | some _ => levelText | none => []),
                featuretype := r.featuretype, orderBy := r.orderBy, reverse := r.reverse, limit := r.limit,
                within := r.within } = makeQuery r.toSArgs.toMq := by
  cases hl : r.level <;> simp [makeQuery, RelArgs.toSArgs, SArgs.toMq, hl]

/-- **the text `_relation` executes is the rendering of its AST** -/
theorem relationText_eq_render (r : RelArgs) (hk : OrderBy.known r.orderBy) :
    relationText r = (relationAst r).map (fun p => (render p.1, p.2)) := by
  have e := relation_mq r
  have e2 : relationText r =
      (makeQuery r.toSArgs.toMq >>= fun p => pure (replaceAll kwSelect kwSelectDistinct p.1, p.2)) := by
    rw [← e]; rfl
  rw [e2, makeQuery_eq_render]
  unfold relationAst makeQueryAst
  cases h : makeSelect r.toSArgs with
  | error e => rfl
  | ok p =>
    obtain ⟨s, args⟩ := p
    obtain ⟨hd, ho⟩ := makeSelect_distinct _ _ _ h
    simp only [Bind.bind, Except.bind, Except.map, pure, Except.pure, render]
    have := render_distinct s hd (fun ts d hs => by
      rw [hs] at ho
      exact (orderAst_allKeys _ _ ts d hk ho).1)
    show Except.ok (replaceAll kwSelect kwSelectDistinct (Select.render s), args) = _
    rw [this]


/-! ### `region` -/

theorem render_cmp_start (op : Cmp) :
    (Cond.cmpP (.feat false .start) op).render = "start ".toList ++ op.render ++ " ?".toList := by
  cases op <;> decide
theorem render_cmp_stop (op : Cmp) :
    (Cond.cmpP (.feat false .stop) op).render = "end ".toList ++ op.render ++ " ?".toList := by
  cases op <;> decide

theorem regionPos_eq (a : RegionArgs) :
    ((regionPos a).1.map Cond.render, (regionPos a).2) = regionPosText a := by
  unfold regionPos regionPosText
  cases a.seqid <;> cases truthy (regionStart a) <;> cases truthy (regionStop a) <;> cases a.within <;>
    simp only [List.map_cons, List.map_nil, List.nil_append, List.append_nil, render_cmp_start,
      render_cmp_stop, List.cons_append] <;> rfl

theorem map_const_replicate {α β : Type} (l : List α) (x : β) : l.map (fun _ => x) = List.replicate l.length x := by
  induction l with
  | nil => rfl
  | cons a l ih => simp [List.replicate_succ, ih]

def binTextOf : Option Cond → Str
  | some c => "AND ".toList ++ c.render
  | none => []

theorem regionBin_eq (a : RegionArgs) :
    (binTextOf (regionBin a).1, (regionBin a).2) = regionBinText a := by
  unfold regionBin regionBinText
  cases regionStart a with
  | none => rfl
  | some s =>
    cases regionStop a with
    | none => rfl
    | some e =>
      cases a.within with
      | false => rfl
      | true =>
        simp only
        cases binClause s e with
        | none => rfl
        | some bs =>
          show ("AND ".toList ++ ("( ".toList ++ Str.join " or ".toList (List.replicate bs.length ("bin".toList ++ " = ?".toList)) ++ " )".toList), bs.map SqlArg.int) = ("AND ( ".toList ++ Str.join " or ".toList (List.map (fun _ => "bin = ?".toList) bs) ++ " )".toList, bs.map SqlArg.int)
          rw [map_const_replicate bs "bin = ?".toList]
          have e1 : "AND ( ".toList = "AND ".toList ++ "( ".toList := by decide
          have e2 : "bin".toList ++ " = ?".toList = "bin = ?".toList := by decide
          rw [e1, e2]
          simp only [List.append_assoc]

def ftTextOf : Option Cond → Str
  | some c => " AND ".toList ++ c.render ++ [' ']
  | none => []

theorem regionFt_eq (a : RegionArgs) : (ftTextOf (regionFt a).1, (regionFt a).2) = regionFtText a := by
  unfold regionFt regionFtText
  cases a.featuretype with
  | none => rfl
  | some fts =>
    show (" AND ".toList ++ (['('] ++ Str.join " or ".toList (List.replicate fts.length ("featuretype".toList ++ " = ?".toList)) ++ [')']) ++ [' '], fts.map SqlArg.text) = (" AND (".toList ++ Str.join " or ".toList (List.map (fun _ => "featuretype = ?".toList) fts) ++ ") ".toList, fts.map SqlArg.text)
    rw [map_const_replicate fts "featuretype = ?".toList]
    have e1 : " AND (".toList = " AND ".toList ++ ['('] := by decide
    have e2 : "featuretype".toList ++ " = ?".toList = "featuretype = ?".toList := by decide
    have e3 : ") ".toList = [')'] ++ [' '] := by decide
    rw [e1, e2, e3]
    simp only [List.append_assoc]

def strandTextOf : Option Cond → Str
  | some c => " and ".toList ++ c.render ++ [' ']
  | none => []

theorem regionStrand_eq (a : RegionArgs) : (strandTextOf (regionStrand a).1, (regionStrand a).2) = regionStrandText a := by
  unfold regionStrand regionStrandText
  cases a.strand with
  | none => rfl
  | some st => rfl

theorem RegionStmt.render_eq (r : RegionStmt) :
    r.render = Str.join [' '] [selectText, "WHERE ".toList, conjRender r.position, binTextOf r.bin] ++ ftTextOf r.ft ++
      strandTextOf r.strand := by
  unfold RegionStmt.render
  cases r.bin <;> cases r.ft <;> cases r.strand <;> simp [binTextOf, ftTextOf, strandTextOf]

/-- **the text `region` executes is the rendering of its AST** -/
theorem regionText_eq_render (a : RegionArgs) : regionText a = (render (regionAst a).1, (regionAst a).2) := by
  unfold regionText regionAst
  simp only [render, RegionStmt.render_eq, conjRender]
  have hp := regionPos_eq a
  have hb := regionBin_eq a
  have hf := regionFt_eq a
  have hs := regionStrand_eq a
  rw [← hp, ← hb, ← hf, ← hs]


end GffProofs.C11Sql
