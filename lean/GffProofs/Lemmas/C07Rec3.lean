import GffProofs.Lemmas.C07Rec2

namespace GffProofs.C07
open GffModel GffModel.Parser GffModel.Grammar

theorem join_ne_nil (sep p : Str) (rest : List Str) (hp : p ≠ []) : Str.join sep (p :: rest) ≠ [] := by
  cases rest with
  | nil => simpa [Str.join]
  | cons q r => simp [Str.join, hp]

theorem quoteStr_ne_nil (v : Str) (hv : v ≠ []) : Quote.quoteStr v ≠ [] := by
  cases v with
  | nil => exact absurd rfl hv
  | cons c cs =>
    unfold Quote.quoteStr
    simp only [List.flatMap_cons]
    unfold Quote.quoteChar
    split <;> simp

theorem encVal_ne_nil (s : LineSpec) (v : Str) (hv : v ≠ []) : s.encVal v ≠ [] := by
  unfold LineSpec.encVal; split
  · exact quoteStr_ne_nil v hv
  · exact hv

/-- the text `_reconstruct` writes for one `(key, values)` item -/
def itemText (s : LineSpec) (kv : Str × List Str) : Str :=
  if !kv.2.isEmpty then
    let valStr := Str.join [','] kv.2
    if !valStr.isEmpty then
      let valStr := if s.quoted then '"' :: valStr ++ ['"'] else valStr
      Str.join s.kvSep [kv.1, valStr]
    else kv.1
  else
    if s.fmt = gtf then Str.join s.kvSep [kv.1, ['"', '"']] else kv.1

theorem block_text (s : LineSpec) (it : AttrItem) (hv : ∀ v ∈ it.vals, v ≠ []) :
    (blockItems s it).map (itemText s) = renderItem s it := by
  unfold blockItems renderItem
  cases hvals : it.vals with
  | nil => by_cases hg : s.fmt = gtf <;> simp [itemText, Str.join, hg]
  | cons v vs =>
    rw [hvals] at hv
    simp only []
    split
    · rw [List.map_map]
      apply List.map_congr_left
      intro w hw
      have := encVal_ne_nil s w (hv w hw)
      simp [itemText, Str.join, this, wrapQ]
    · have h1 := encVal_ne_nil s v (hv v (by simp))
      have := join_ne_nil [','] (s.encVal v) (vs.map s.encVal) h1
      simp [itemText, this, wrapQ, Str.join]

end GffProofs.C07
