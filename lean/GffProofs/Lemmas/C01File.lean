/-
  Helper lemmas for C01, file level: the dialect vote over the inspected window (`_FileIterator.peek`
  + `_choose_dialect`) and the full iteration with the voted dialect.
-/
import GffProofs.Lemmas.C01Line
import GffProofs.Props.C09
import GffModel.Iter

namespace GffProofs.C01
open GffModel GffModel.Parser GffModel.Grammar
open GffProofs.C07 (ColFacts)

/-! ### the window -/

/-- the dialect a fully well-formed line exhibits, up to the key order, is `dOf s` -/
theorem wf_dialect_dims (s : LineSpec) (h : s.WF = true) :
    { s.dialect with order := [] } = dOf s [] := by
  have W := C07.wfacts s h
  by_cases he : s.attrs = []
  · obtain ⟨h1, h2, h3, h4, h5⟩ := W.empty he
    have hd : s.dialect = Dialect.default := by unfold LineSpec.dialect; simp [he]
    rw [hd]
    unfold dOf LineSpec.kvSep LineSpec.fmt
    rw [h1, h2, h3, h4, h5]
    rfl
  · rw [C07.dialect_eq s he]; rfl

theorem dOf_sameDims (s t : LineSpec) (h : SameDims s t) (ord : List Str) : dOf s ord = dOf t ord := by
  unfold dOf LineSpec.kvSep LineSpec.fmt
  rw [h.sep, h.trailing, h.style, h.quoted, h.repeated]

theorem mapping_keys (s : LineSpec) : Dict.keys s.mapping = s.attrs.map (·.key) := by
  unfold Dict.keys LineSpec.mapping
  simp [List.map_map, Function.comp_def]

/-- the inferring parser over a list of fully well-formed rendered lines, seen through `view` -/
theorem peek_views (ss : List LineSpec) (h : ∀ s ∈ ss, s.WF = true) :
    ∃ fs, (ss.map renderLine).mapM (fun l => featureFromLine l none true false) = .ok fs ∧
      fs.map Iter.view = ss.map (fun s => (s.dialect, s.attrs.map (·.key))) := by
  induction ss with
  | nil => exact ⟨[], rfl, rfl⟩
  | cons s ss ih =>
    obtain ⟨o3, o4, _, _, hf⟩ := C07.strict_feature s (h s (by simp)) false
    obtain ⟨fs, hfs, hv⟩ := ih (fun t ht => h t (by simp [ht]))
    refine ⟨C07.specFeature s o3 o4 false :: fs, ?_, ?_⟩
    · simp only [List.map_cons, List.mapM_cons, hf, hfs, bind, Except.bind, pure, Except.pure]
    · simp only [List.map_cons, hv]
      congr 1
      unfold Iter.view C07.specFeature
      simp only [mapping_keys]

/-- **the vote**: a window of fully well-formed lines that all exhibit the dimensions of `s0` votes
those dimensions with the first-seen key order -/
theorem vote_window (lines : List Str) (specs : List LineSpec) (checklines : Nat) (s0 : LineSpec)
    (hfl : Iter.featureLines lines = specs.map renderLine) (hne : specs ≠ [])
    (hwin : ∀ s ∈ specs.take (checklines + 1), s.WF = true ∧ SameDims s s0) :
    Iter.fileDialect lines checklines =
      .ok (dOf s0 (Helpers.firstSeenOrder ((specs.take (checklines + 1)).map (fun s => s.attrs.map (·.key))))) := by
  obtain ⟨fs, hfs, hv⟩ := peek_views (specs.take (checklines + 1)) (fun s hs => (hwin s hs).1)
  unfold Iter.fileDialect Iter.filePeek
  rw [hfl, ← List.map_take, hfs]
  show Except.ok (Helpers.chooseDialect (fs.map Iter.view)) = _
  rw [hv]
  have hne' : (specs.take (checklines + 1)).map (fun s => (s.dialect, s.attrs.map (·.key))) ≠ [] := by
    cases specs with
    | nil => exact absurd rfl hne
    | cons a b => simp
  rw [C09.choose_consistent (dOf s0 []) _ hne']
  · congr 1
    unfold Helpers.firstSeenOrder dOf
    simp only [List.map_map, Function.comp_def]
  · intro f hf
    obtain ⟨s, hs, rfl⟩ := List.mem_map.mp hf
    simp only
    rw [wf_dialect_dims s (hwin s hs).1, dOf_sameDims s s0 (hwin s hs).2]
    rfl

/-! ### the full iteration with the voted dialect -/

theorem applyTransform_none (d : Dialect) (fs : List Feature) :
    Iter.applyTransform d none fs = fs.map (fun f => { f with dialect := d }) := by
  unfold Iter.applyTransform
  induction fs with
  | nil => rfl
  | cons f fs ih => simp only [List.filterMap_cons, List.map_cons, ih]

/-- every line parsed through the provided-dialect path with the voted dialect -/
theorem iterate_specs (lines : List Str) (specs : List LineSpec) (d : Dialect)
    (hfl : Iter.featureLines lines = specs.map renderLine)
    (hs : ∀ s ∈ specs, PFacts s ∧ ColFacts s ∧ d = dOf s d.order) :
    Iter.fileIterate lines d none = .ok (specs.map (fun s => provFeature s d false)) := by
  unfold Iter.fileIterate
  rw [hfl, C08bAux.mapM_map_ok (fun l => featureFromLine l (some d) true false) renderLine
    (fun s => provFeature s d false) specs]
  · show Except.ok (Iter.applyTransform d none _) = _
    rw [applyTransform_none, List.map_map]
    rfl
  · intro s hsm
    obtain ⟨P, C, hd⟩ := hs s hsm
    have := (strict_featureP s P C d.order false).1
    rw [← hd] at this
    exact this

/-! ### a text made of feature lines only (what printing the features gives) -/

theorem takeWhile_all {α : Type} (p : α → Bool) (l : List α) (h : ∀ x ∈ l, p x = true) : l.takeWhile p = l := by
  induction l with
  | nil => rfl
  | cons a l ih => simp [List.takeWhile, h a (by simp), ih (fun x hx => h x (by simp [hx]))]

theorem featureLines_class (lines : List Str) : ∀ l ∈ Iter.featureLines lines, Iter.classify l = .feature := by
  intro l hl
  unfold Iter.featureLines at hl
  simpa using (List.mem_filter.mp hl).2

theorem featureLines_idem (lines : List Str) :
    Iter.featureLines (Iter.featureLines lines) = Iter.featureLines lines := by
  have hc := featureLines_class lines
  generalize Iter.featureLines lines = L at hc
  have hb : Iter.body L = L := by
    unfold Iter.body
    apply takeWhile_all
    intro l hl
    simp [hc l hl]
  unfold Iter.featureLines
  rw [hb, List.filter_eq_self]
  intro l hl
  simp [hc l hl]

theorem featureLines_directives (lines : List Str) : Iter.directives (Iter.featureLines lines) = [] := by
  have hc := featureLines_class lines
  have hi := featureLines_idem lines
  generalize Iter.featureLines lines = L at hc hi
  have hb : Iter.body L = L := by
    unfold Iter.body
    apply takeWhile_all
    intro l hl
    simp [hc l hl]
  unfold Iter.directives
  rw [hb, List.filterMap_eq_nil_iff]
  intro l hl
  rw [hc l hl]

theorem fileDialect_featureLines (lines : List Str) (n : Nat) :
    Iter.fileDialect (Iter.featureLines lines) n = Iter.fileDialect lines n := by
  unfold Iter.fileDialect Iter.filePeek
  rw [featureLines_idem]

end GffProofs.C01
