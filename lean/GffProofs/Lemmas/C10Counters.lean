/-
  C10 helpers: every importer stage only ever moves the counters forward (`Ext`), whatever the
  configuration, merge strategy or input.
-/
import GffProofs.Lemmas.C10Aux

namespace GffProofs.C10
open GffModel GffModel.Create GffModel.Interface

theorem incr_eq_ext {auto auto' : Dict Nat} {k id : Str} (h : incr auto k = (id, auto')) : Ext auto auto' := by
  have := incr_ext auto k
  rw [h] at this
  exact this

theorem tryKeys_ext (auto auto' : Dict Nat) (f : Feature) (ks : List KeySpec) (id : Str)
    (h : tryKeys auto f ks = .ok (some (id, auto'))) : Ext auto auto' := by
  induction ks with
  | nil => simp [tryKeys] at h
  | cons k rest ih =>
    cases k with
    | call g =>
      simp only [tryKeys] at h
      split at h
      · split at h
        · exact ih h
        · split at h
          · simp only [Except.ok.injEq, Option.some.injEq] at h
            exact incr_eq_ext h
          · simp only [Except.ok.injEq, Option.some.injEq, Prod.mk.injEq] at h
            rw [← h.2]; exact Ext.refl _
      · exact ih h
    | attr k =>
      simp only [tryKeys] at h
      split at h
      · cases hf : fieldOf f ((k.drop 1).dropLast) with
        | error e => rw [hf] at h; cases h
        | ok v =>
          rw [hf] at h
          simp only [Except.map, Except.ok.injEq, Option.some.injEq, Prod.mk.injEq] at h
          rw [← h.2]; exact Ext.refl _
      · split at h
        · split at h
          · cases h
          · split at h
            · simp only [Except.ok.injEq, Option.some.injEq, Prod.mk.injEq] at h
              rw [← h.2]; exact Ext.refl _
            · exact ih h
        · exact ih h

theorem idHandler_ext (spec : IdSpec) (auto auto' : Dict Nat) (f : Feature) (id : Str)
    (h : idHandler spec auto f = .ok (id, auto')) : Ext auto auto' := by
  unfold idHandler at h
  simp only [bind, Except.bind, pure, Except.pure] at h
  split at h
  · simp only [Except.ok.injEq] at h
    exact incr_eq_ext h
  · split at h
    · cases h
    · rename_i r hr
      cases r with
      | none =>
        simp only [Except.ok.injEq] at h
        exact incr_eq_ext h
      | some p =>
        simp only [Except.ok.injEq] at h
        subst h
        exact tryKeys_ext _ _ _ _ _ hr

theorem doMerge_ext (cfg : Cfg) (db db1 : Db) (auto auto1 : Dict Nat) (f : Feature) (id : Str) (st final : Strategy)
    (fixed : Option Feature) (h : doMerge cfg db auto f id st = .ok (fixed, final, db1, auto1)) :
    Ext auto auto1 := by
  unfold doMerge at h
  cases st with
  | error => cases h
  | warning => simp only [Except.ok.injEq, Prod.mk.injEq] at h; obtain ⟨_, _, _, rfl⟩ := h; exact Ext.refl _
  | replace => simp only [Except.ok.injEq, Prod.mk.injEq] at h; obtain ⟨_, _, _, rfl⟩ := h; exact Ext.refl _
  | createUnique =>
    simp only [Except.ok.injEq, Prod.mk.injEq] at h; obtain ⟨_, _, _, rfl⟩ := h; exact incr_ext _ _
  | merge =>
    simp only at h
    split at h
    · simp only [Except.ok.injEq, Prod.mk.injEq] at h; obtain ⟨_, _, _, rfl⟩ := h; exact incr_ext _ _
    · simp only [Except.ok.injEq, Prod.mk.injEq] at h; obtain ⟨_, _, _, rfl⟩ := h; exact Ext.refl _

theorem fileFeature_ext (cfg : Cfg) (db db' : Db) (auto auto' : Dict Nat) (f : Feature) (id : Str) (o : Option Str)
    (hf : fileFeature cfg db auto f id = .ok (db', auto', o)) : Ext auto auto' := by
  unfold fileFeature at hf
  simp only [bind, Except.bind, pure, Except.pure] at hf
  split at hf
  · cases hf
  · split at hf
    · simp only [Except.ok.injEq, Prod.mk.injEq] at hf
      obtain ⟨_, rfl, _⟩ := hf
      exact Ext.refl _
    · split at hf
      · cases hf
      · rename_i res hres
        obtain ⟨fixed, final, db1, auto1⟩ := res
        have hm := doMerge_ext _ _ _ _ _ _ _ _ _ _ hres
        simp only at hf
        split at hf
        · simp only [Except.ok.injEq, Prod.mk.injEq] at hf
          obtain ⟨_, rfl, _⟩ := hf; exact hm
        · split at hf
          · cases hf
          · simp only [Except.ok.injEq, Prod.mk.injEq] at hf
            obtain ⟨_, rfl, _⟩ := hf; exact hm
        · split at hf
          · cases hf
          · split at hf
            · cases hf
            · simp only [Except.ok.injEq, Prod.mk.injEq] at hf
              obtain ⟨_, rfl, _⟩ := hf; exact hm
        · simp only [Except.ok.injEq, Prod.mk.injEq] at hf
          obtain ⟨_, rfl, _⟩ := hf; exact hm

theorem gffStep_ext (cfg : Cfg) (st st' : Db × Dict Nat) (f : Feature)
    (hs : gffStep cfg st f = .ok st') : Ext st.2 st'.2 := by
  obtain ⟨db, auto⟩ := st
  unfold gffStep at hs
  simp only [bind, Except.bind, pure, Except.pure] at hs
  split at hs
  · cases hs
  · rename_i r1 h1
    obtain ⟨id, auto1⟩ := r1
    simp only at hs
    split at hs
    · cases hs
    · rename_i r2 h2
      obtain ⟨db2, auto2, filed⟩ := r2
      simp only [Except.ok.injEq] at hs
      subst hs
      exact (idHandler_ext _ _ _ _ _ h1).trans (fileFeature_ext _ _ _ _ _ _ _ _ h2)

theorem gtfStep_ext (cfg : Cfg) (st st' : Db × Dict Nat) (f : Feature)
    (hs : gtfStep cfg st f = .ok st') : Ext st.2 st'.2 := by
  obtain ⟨db, auto⟩ := st
  unfold gtfStep at hs
  simp only [bind, Except.bind, pure, Except.pure] at hs
  split at hs
  · cases hs
  · rename_i r1 h1
    obtain ⟨id, auto1⟩ := r1
    simp only at hs
    split at hs
    · cases hs
    · rename_i r2 h2
      obtain ⟨db2, auto2, filed⟩ := r2
      simp only [Except.ok.injEq] at hs
      subst hs
      exact (idHandler_ext _ _ _ _ _ h1).trans (fileFeature_ext _ _ _ _ _ _ _ _ h2)

/-- invariant lifting through `foldlM` for a relation to the start state -/
theorem foldlM_ext {σ α : Type} (step : σ → α → Py σ) (proj : σ → Dict Nat)
    (hstep : ∀ s a s', step s a = .ok s' → Ext (proj s) (proj s')) (l : List α) (s s' : σ)
    (h : l.foldlM step s = .ok s') : Ext (proj s) (proj s') :=
  C04.foldlM_inv step (fun t => Ext (proj s) (proj t))
    (fun t a t' ht hs => ht.trans (hstep t a t' hs)) l s s' (Ext.refl _) h

theorem populateGff_ext (cfg : Cfg) (db db' : Db) (auto auto' : Dict Nat) (fs : List Feature)
    (hp : populateGff cfg db auto fs = .ok (db', auto')) : Ext auto auto' := by
  unfold populateGff at hp
  split at hp
  · cases hp
  · exact foldlM_ext (gffStep cfg) (·.2) (fun s a s' => gffStep_ext cfg s s' a) fs (db, auto) (db', auto') hp

theorem populateGtf_ext (cfg : Cfg) (db db' : Db) (auto auto' : Dict Nat) (fs : List Feature)
    (hp : populateGtf cfg db auto fs = .ok (db', auto')) : Ext auto auto' := by
  unfold populateGtf at hp
  split at hp
  · cases hp
  · exact foldlM_ext (gtfStep cfg) (·.2) (fun s a s' => gtfStep_ext cfg s s' a) fs (db, auto) (db', auto') hp

/-- the insertion pass of `_GTFDBCreator._update_relations` for one derived feature -/
def derivedStep (cfg : Cfg) (st : Db × Dict Nat) (f : Feature) : Py (Db × Dict Nat) := do
  let (db, auto) := st
  let (id, auto) ← idHandler cfg.idSpec auto f
  let f := { f with id := some id }
  let row ← Row.ofFeature f
  match db.insert row with
  | .ok db => pure (db, auto)
  | .error _ =>
    let (fixed, final, db, auto) ← doMerge cfg db auto f id .merge
    match final, fixed with
    | .merge, some fx => pure (db.modifyRow (fx.id.getD id) (fun r => { r with attrs := fx.attrs }), auto)
    | _, _ => pure (db, auto)

theorem derivedStep_ext (cfg : Cfg) (st st' : Db × Dict Nat) (f : Feature)
    (hs : derivedStep cfg st f = .ok st') : Ext st.2 st'.2 := by
  obtain ⟨db, auto⟩ := st
  unfold derivedStep at hs
  simp only [bind, Except.bind, pure, Except.pure] at hs
  split at hs
  · cases hs
  · rename_i r1 h1
    obtain ⟨id, auto1⟩ := r1
    have e1 := idHandler_ext _ _ _ _ _ h1
    simp only at hs
    split at hs
    · cases hs
    · split at hs
      · simp only [Except.ok.injEq] at hs
        subst hs; exact e1
      · split at hs
        · cases hs
        · rename_i res hres
          obtain ⟨fixed, final, db1, auto2⟩ := res
          have e2 := doMerge_ext _ _ _ _ _ _ _ _ _ _ hres
          simp only at hs
          split at hs <;>
          · simp only [Except.ok.injEq] at hs
            subst hs; exact e1.trans e2

theorem updateRelationsGtf_ext (cfg : Cfg) (db db' : Db) (auto auto' : Dict Nat)
    (h : updateRelationsGtf cfg db auto = .ok (db', auto')) : Ext auto auto' := by
  unfold updateRelationsGtf at h
  simp only [bind, Except.bind, pure, Except.pure] at h
  split at h
  · simp only [Except.ok.injEq, Prod.mk.injEq] at h
    rw [← h.2]; exact Ext.refl _
  · split at h
    · cases h
    · rename_i r hr
      obtain ⟨derived, lastGene⟩ := r
      exact foldlM_ext (derivedStep cfg) (·.2) (fun s a s' => derivedStep_ext cfg s s' a) derived (db, auto) (db', auto') h

end GffProofs.C10
