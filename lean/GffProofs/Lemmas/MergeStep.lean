/-
  Lemmas about `GffModel.Merge`: inversion of one loop iteration (`step_cases`), the generic loop
  induction, `absorb`, `finalize`, the id `<featuretype>_<n>` and the counter dictionary.
  Core Lean only.
-/
import GffModel.Merge

namespace GffProofs.MergeStep
open GffModel GffModel.Merge

/-! ### one iteration, inverted -/

/-- the checked component list the main test sees: `feature_children`, or `[current_merged]` after a
successful reflexive re-check of an unchecked `current_merged` -/
def EffKids (cs : List Crit) (st : St) (c : MObj) (kids : List Feature) : Prop :=
  (st.kids ≠ [] ∧ kids = st.kids) ∨ (st.kids = [] ∧ allCrit cs c.f c.f [] = .ok true ∧ kids = [c.f])

/-- the five ways an iteration can end without an exception -/
inductive StepCase (cfg : DbCfg) (cs : List Crit) (st : St) (x : MObj) (st' : St) (ys : List MObj) : Prop
  /-- no current run; `x` passes its reflexive check and opens one -/
  | firstAccept (hcur : st.cur = none) (hc : allCrit cs x.f x.f st.kids = .ok true)
      (hst : st' = { st with cur := some x, kids := [x.f] }) (hys : ys = [])
  /-- no current run; `x` fails its reflexive check and is yielded alone -/
  | firstReject (hcur : st.cur = none) (hc : allCrit cs x.f x.f st.kids = .ok false)
      (hst : st' = { st with lastId := none }) (hys : ys = [finalize x []])
  /-- the unchecked `current_merged` fails its reflexive check and is yielded alone; `x` becomes the
  (unchecked) current -/
  | uncheckedReject (c : MObj) (hcur : st.cur = some c) (hk : st.kids = [])
      (hc : allCrit cs c.f c.f [] = .ok false)
      (hst : st' = { st with cur := some x, lastId := none }) (hys : ys = [finalize c []])
  /-- some criterion rejects `(current, x, kids)`: the run is yielded, `x` becomes the unchecked current -/
  | flush (c : MObj) (kids : List Feature) (hcur : st.cur = some c) (hk : EffKids cs st c kids)
      (hc : allCrit cs c.f x.f kids = .ok false)
      (hst : st' = { cur := some x, kids := [], lastId := none, autoinc := st.autoinc })
      (hys : ys = [finalize c kids])
  /-- every criterion accepts `(current, x, kids)`: `x` joins the run -/
  | join (c : MObj) (kids : List Feature) (c' : MObj) (lastId' : Option Str) (ai' : Dict Nat) (m : Feature)
      (hcur : st.cur = some c) (hk : EffKids cs st c kids)
      (hc : allCrit cs c.f x.f kids = .ok true)
      (hrun : (if kids.length = 1 then startRun cfg c st.lastId st.autoinc
               else .ok (c, st.lastId, st.autoinc)) = .ok (c', lastId', ai'))
      (habs : absorb c'.f x.f = .ok m)
      (hst : st' = { cur := some { c' with f := m }, kids := kids ++ [x.f], lastId := lastId', autoinc := ai' })
      (hys : ys = [])

theorem stepMain_cases (cfg : DbCfg) (cs : List Crit) (st : St) (c : MObj) (kids : List Feature) (x : MObj)
    (st' : St) (ys : List MObj) (hcur : st.cur = some c) (hk : EffKids cs st c kids)
    (h : stepMain cfg cs c kids st.lastId st.autoinc x = .ok (st', ys)) : StepCase cfg cs st x st' ys := by
  unfold stepMain at h
  split at h
  · cases h
  · rename_i hc
    injection h with h; injection h with h1 h2
    exact .flush c kids hcur hk hc h1.symm h2.symm
  · rename_i hc
    split at h
    · cases h
    · rename_i c' lastId' ai' hrun
      split at h
      · cases h
      · rename_i m habs
        injection h with h; injection h with h1 h2
        exact .join c kids c' lastId' ai' m hcur hk hc hrun habs h1.symm h2.symm

theorem step_cases (cfg : DbCfg) (cs : List Crit) (st : St) (x : MObj) (st' : St) (ys : List MObj)
    (h : step cfg cs st x = .ok (st', ys)) : StepCase cfg cs st x st' ys := by
  unfold step at h
  split at h
  · rename_i hcur
    split at h
    · cases h
    · rename_i hc
      injection h with h; injection h with h1 h2
      exact .firstAccept hcur hc h1.symm h2.symm
    · rename_i hc
      injection h with h; injection h with h1 h2
      exact .firstReject hcur hc h1.symm h2.symm
  · rename_i c hcur
    split at h
    · rename_i hk
      have hk' : st.kids = [] := by simpa using hk
      split at h
      · cases h
      · rename_i hc
        rw [hk'] at hc
        exact stepMain_cases cfg cs st c [c.f] x st' ys hcur (Or.inr ⟨hk', hc, rfl⟩) h
      · rename_i hc
        rw [hk'] at hc
        injection h with h; injection h with h1 h2
        exact .uncheckedReject c hcur hk' hc h1.symm h2.symm
    · rename_i hk
      have hk' : st.kids ≠ [] := by simpa using hk
      exact stepMain_cases cfg cs st c st.kids x st' ys hcur (Or.inl ⟨hk', rfl⟩) h

/-! ### generic loop induction -/

theorem loop_invariant (cfg : DbCfg) (cs : List Crit) (I : St → Prop) (Q : MObj → Prop)
    (hstep : ∀ st x st' ys, I st → step cfg cs st x = .ok (st', ys) → I st' ∧ ∀ o ∈ ys, Q o) :
    ∀ xs st st' ys, I st → loop cfg cs st xs = .ok (st', ys) → I st' ∧ ∀ o ∈ ys, Q o := by
  intro xs
  induction xs with
  | nil =>
    intro st st' ys hI h
    simp only [loop] at h
    injection h with h; injection h with h1 h2
    subst h1; subst h2
    exact ⟨hI, fun o ho => by cases ho⟩
  | cons x xs ih =>
    intro st st' ys hI h
    simp only [loop] at h
    split at h
    · cases h
    · rename_i st1 ys1 hs
      split at h
      · cases h
      · rename_i st2 zs hl
        injection h with h; injection h with h1 h2
        subst h1; subst h2
        obtain ⟨hI1, hQ1⟩ := hstep st x st1 ys1 hI hs
        obtain ⟨hI2, hQ2⟩ := ih st1 st2 zs hI1 hl
        refine ⟨hI2, fun o ho => ?_⟩
        rcases List.mem_append.1 ho with ho | ho
        · exact hQ1 o ho
        · exact hQ2 o ho

theorem loop_cons_inv (cfg : DbCfg) (cs : List Crit) (st : St) (x : MObj) (xs : List MObj) (st' : St)
    (ys : List MObj) (h : loop cfg cs st (x :: xs) = .ok (st', ys)) :
    ∃ st1 ys1 zs, step cfg cs st x = .ok (st1, ys1) ∧ loop cfg cs st1 xs = .ok (st', zs) ∧ ys = ys1 ++ zs := by
  simp only [loop] at h
  split at h
  · cases h
  · rename_i st1 ys1 hs
    split at h
    · cases h
    · rename_i st2 zs hl
      injection h with h; injection h with h1 h2
      subst h1; subst h2
      exact ⟨st1, ys1, zs, hs, hl, rfl⟩

theorem loop_nil_inv (cfg : DbCfg) (cs : List Crit) (st st' : St) (ys : List MObj)
    (h : loop cfg cs st [] = .ok (st', ys)) : st' = st ∧ ys = [] := by
  simp only [loop] at h
  injection h with h; injection h with h1 h2
  exact ⟨h1.symm, h2.symm⟩

theorem merge_inv (cfg : DbCfg) (cs : List Crit) (ai : Dict Nat) (xs : List MObj) (outs : List MObj)
    (ai' : Dict Nat) (h : merge cfg cs ai xs = .ok (outs, ai')) :
    ∃ st ys zs, loop cfg cs { autoinc := ai } xs = .ok (st, ys) ∧ finish st = .ok zs ∧
      outs = ys ++ zs ∧ ai' = st.autoinc := by
  unfold merge at h
  split at h
  · cases h
  · rename_i st ys hl
    split at h
    · cases h
    · rename_i zs hf
      injection h with h; injection h with h1 h2
      exact ⟨st, ys, zs, hl, hf, h1.symm, h2.symm⟩

/-- `finish` yields nothing, or the finalised current run -/
theorem finish_cases (st : St) (zs : List MObj) (h : finish st = .ok zs) :
    (st.cur = none ∧ zs = []) ∨
    (∃ c, st.cur = some c ∧ Feature.len c.f = .ok 0 ∧ zs = []) ∨
    (∃ c n, st.cur = some c ∧ Feature.len c.f = .ok n ∧ 0 < n ∧ zs = [finalize c st.kids]) := by
  unfold finish at h
  split at h
  · injection h with h; exact Or.inl ⟨‹_›, h.symm⟩
  · rename_i c hcur
    split at h
    · cases h
    · rename_i n hn
      split at h
      · cases h
      · split at h
        · rename_i h0
          injection h with h
          subst h0
          exact Or.inr (Or.inl ⟨c, hcur, hn, h.symm⟩)
        · injection h with h
          exact Or.inr (Or.inr ⟨c, n, hcur, hn, by omega, h.symm⟩)

/-! ### `finalize` -/

theorem members_finalize (c : MObj) (kids : List Feature) (h : ∀ k, kids = [k] → k = c.f) :
    (finalize c kids).members = if kids.isEmpty then [c.f] else kids := by
  unfold finalize MObj.members
  match kids, h with
  | [], _ => simp
  | [k], h => simp [h k rfl]
  | k1 :: k2 :: r, _ => simp

theorem finalize_children (c : MObj) (kids : List Feature) :
    (finalize c kids).children = some (if kids.length > 1 then kids else []) := by
  unfold finalize
  split <;> rfl

theorem finalize_single (c : MObj) (kids : List Feature) (h : ¬ kids.length > 1) :
    finalize c kids = { c with children := some [] } := by
  unfold finalize; rw [if_neg h]

theorem finalize_merged (c : MObj) (kids : List Feature) (h : kids.length > 1) :
    finalize c kids = { f := { c.f with source := joinedSources kids }, children := some kids } := by
  unfold finalize; rw [if_pos h]

/-! ### `absorb` -/

theorem absorb_ok (m0 x m : Feature) (h : absorb m0 x = .ok m) :
    ∃ s e xs xe, m0.start = some s ∧ m0.stop = some e ∧ x.start = some xs ∧ x.stop = some xe ∧
      m = { m0 with
        seqid := if (Str.splitChar ',' m0.seqid).contains x.seqid then m0.seqid else m0.seqid ++ [','] ++ x.seqid,
        strand := if x.strand ≠ m0.strand then ['.'] else m0.strand,
        frame := if x.frame ≠ m0.frame then ['.'] else m0.frame,
        ftype := if x.ftype ≠ m0.ftype then "sequence_feature".toList else m0.ftype,
        start := some (if xs < s then xs else s),
        stop := some (if e < xe then xe else e) } := by
  unfold absorb at h
  cases hs : m0.start with
  | none => rw [hs] at h; cases hx : x.start <;> (rw [hx] at h; simp [ltI] at h)
  | some s =>
    cases hx : x.start with
    | none => rw [hs, hx] at h; simp [ltI] at h
    | some xs =>
      cases he : m0.stop with
      | none => rw [hs, hx, he] at h; cases hxe : x.stop <;> (rw [hxe] at h; simp [ltI] at h)
      | some e =>
        cases hxe : x.stop with
        | none => rw [hs, hx, he, hxe] at h; simp [ltI] at h
        | some xe =>
          rw [hs, hx, he, hxe] at h
          simp only [ltI] at h
          injection h with h
          refine ⟨s, e, xs, xe, rfl, rfl, rfl, rfl, ?_⟩
          rw [← h]
          congr 1
          · by_cases hlt : xs < s <;> simp [hlt]
          · by_cases hlt : e < xe <;> simp [hlt]

/-! ### the counter dictionary -/

/-- `self._autoincrements[k]` (a `defaultdict(int)`) -/
def cnt (ai : Dict Nat) (k : Str) : Nat := (Dict.get? ai k).getD 0

theorem get_set_eq (ai : Dict Nat) (k : Str) (n : Nat) : Dict.get? (Dict.set ai k n) k = some n := by
  induction ai with
  | nil => simp [Dict.set, Dict.get?]
  | cons kv rest ih =>
    unfold Dict.set
    by_cases hk : kv.1 = k
    · rw [if_pos hk]; simp [Dict.get?]
    · rw [if_neg hk]; unfold Dict.get?; rw [if_neg hk]; exact ih

theorem get_set_ne (ai : Dict Nat) (k k' : Str) (n : Nat) (h : k' ≠ k) :
    Dict.get? (Dict.set ai k n) k' = Dict.get? ai k' := by
  induction ai with
  | nil => simp [Dict.set, Dict.get?, Ne.symm h]
  | cons kv rest ih =>
    unfold Dict.set
    by_cases hk : kv.1 = k
    · rw [if_pos hk]
      have : ¬ kv.1 = k' := fun c => h (c.symm.trans hk)
      simp [Dict.get?, this, Ne.symm h]
    · rw [if_neg hk]
      unfold Dict.get?
      by_cases hk' : kv.1 = k'
      · simp [hk']
      · simp only [hk', if_false]; exact ih

theorem cnt_set_eq (ai : Dict Nat) (k : Str) (n : Nat) : cnt (Dict.set ai k n) k = n := by
  unfold cnt; rw [get_set_eq]; rfl

theorem cnt_set_ne (ai : Dict Nat) (k k' : Str) (n : Nat) (h : k' ≠ k) :
    cnt (Dict.set ai k n) k' = cnt ai k' := by
  unfold cnt; rw [get_set_ne ai k k' n h]

/-! ### the id `<featuretype>_<n>` is injective in both components -/

theorem natToStr_eq (n : Nat) : Str.natToStr n = Nat.toDigits 10 n := by
  unfold Str.natToStr
  rw [Nat.toString_eq_repr, Nat.toList_repr]

theorem natToStr_inj (n m : Nat) (h : Str.natToStr n = Str.natToStr m) : n = m := by
  rw [natToStr_eq, natToStr_eq] at h
  have := congrArg (fun l => Nat.ofDigitChars 10 l 0) h
  simpa [Nat.ofDigitChars_ten_toDigits] using this

theorem underscore_not_mem (n : Nat) : '_' ∉ Str.natToStr n := by
  rw [natToStr_eq]; exact Nat.underscore_not_in_toDigits

theorem append_sep_inj (c : Char) : ∀ (a b d e : Str), c ∉ d → c ∉ e → a ++ c :: d = b ++ c :: e → a = b ∧ d = e := by
  intro a
  induction a with
  | nil =>
    intro b d e hd he h
    cases b with
    | nil => simp at h; exact ⟨rfl, h⟩
    | cons y b =>
      simp only [List.nil_append, List.cons_append, List.cons.injEq] at h
      obtain ⟨hy, h⟩ := h
      exfalso; apply hd; rw [h]; simp
  | cons x a ih =>
    intro b d e hd he h
    cases b with
    | nil =>
      simp only [List.nil_append, List.cons_append, List.cons.injEq] at h
      obtain ⟨hy, h⟩ := h
      exfalso; apply he; rw [← h]; simp
    | cons y b =>
      simp only [List.cons_append, List.cons.injEq] at h
      obtain ⟨hxy, h⟩ := h
      obtain ⟨h1, h2⟩ := ih b d e hd he h
      exact ⟨by rw [hxy, h1], h2⟩

theorem mkId_inj (a b : Str) (n m : Nat) (h : mkId a n = mkId b m) : a = b ∧ n = m := by
  unfold mkId at h
  simp only [List.append_assoc, List.singleton_append] at h
  obtain ⟨h1, h2⟩ := append_sep_inj '_' a b _ _ (underscore_not_mem n) (underscore_not_mem m) h
  exact ⟨h1, natToStr_inj n m h2⟩

end GffProofs.MergeStep
