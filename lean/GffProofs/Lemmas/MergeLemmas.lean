/-
  Lemmas for C17: the stages of `GffModel.mergeAttributesWith` in terms of key sequence and lookups.
-/
import GffModel.AttrsModel
import GffProofs.Lemmas.DictLemmas
import GffProofs.Lemmas.SortLemmas

namespace GffProofs.MergeL
open GffModel GffProofs.DictL GffProofs.SortL

/-! ### values -/

theorem view_true (v : PyVal) : Attributes.view true v = v := by
  unfold Attributes.view
  split <;> simp

theorem wrap_view (al : Bool) (v : PyVal) : (Attributes.view al v).wrap = v.wrap := by
  unfold Attributes.view
  split
  · cases al <;> rfl
  · rfl

theorem wrap_wrap (v : PyVal) : v.wrap.wrap = v.wrap := by cases v <;> rfl

theorem wrap_of_noTuple (v : PyVal) (h : v.noTuple = true) : v.wrap = .list v.toList := by
  cases v <;> first | rfl | cases h

/-- what `writeItem` stores -/
def wv : Kind → PyVal → PyVal
  | .dict, v => v
  | .attrs, v => v.wrap

theorem writeItem_eq (k : Kind) (d : Dict PyVal) (key : Str) (v : PyVal) :
    writeItem k d key v = Dict.set d key (wv k v) := by
  cases k <;> rfl

theorem wrap_wv (k : Kind) (v : PyVal) : (wv k v).wrap = v.wrap := by
  cases k
  · rfl
  · exact wrap_wrap v

theorem wrap_wv_readVal (k1 k2 : Kind) (view : Bool) (v : PyVal) :
    (wv k1 (readVal k2 view v)).wrap = v.wrap := by
  rw [wrap_wv]
  cases k2
  · rfl
  · exact wrap_view view v

theorem readItems_id (k : Kind) (view : Bool) (hread : ∀ v, readVal k view v = v) (d : Dict PyVal) :
    readItems k view d = d := by
  unfold readItems
  induction d with
  | nil => rfl
  | cons p d ih => rw [List.map_cons, ih, hread]

theorem hread_of (k1 : Kind) (view : Bool) (h : k1 = .dict ∨ view = true) : ∀ v, readVal k1 view v = v := by
  intro v
  rcases h with h | h
  · subst h; rfl
  · subst h
    cases k1
    · rfl
    · exact view_true v

/-! ### stage B: `new_d = deepcopy(attr1); new_d.update(deepcopy(attr2))` -/

theorem mergeUpdate_eq (k1 k2 : Kind) (view : Bool) (a1 a2 : Dict PyVal) :
    mergeUpdate k1 k2 view a1 a2 = foldSet (fun v => wv k1 (readVal k2 view v)) a1 a2 := by
  unfold mergeUpdate readItems foldSet
  rw [List.foldl_map]
  congr 1
  funext d p
  exact writeItem_eq k1 d p.1 _

/-! ### stage C: wrap everything that is not a list -/

theorem get?_foldl_wrapStep (k1 : Kind) (l : Dict PyVal) : ∀ (d : Dict PyVal), (Dict.keys l).Nodup → ∀ k,
    Dict.get? (l.foldl (mergeWrapStep k1) d) k =
      match Dict.get? l k with
      | some (.scalar s) => some (.list [s])
      | _ => Dict.get? d k := by
  induction l with
  | nil => intro d _ k; simp [Dict.get?]
  | cons p l ih =>
    intro d hn k
    obtain ⟨k0, v0⟩ := p
    rw [keys_cons, List.nodup_cons] at hn
    rw [List.foldl_cons, ih _ hn.2 k]
    simp only [Dict.get?]
    by_cases h : k0 = k
    · subst h
      have hnone : Dict.get? l k0 = none := (get?_eq_none_iff l k0).2 hn.1
      simp only [hnone, if_true]
      cases v0 with
      | scalar s =>
        simp only [mergeWrapStep, writeItem_eq, get?_set_self]
        cases k1 <;> rfl
      | list _ => rfl
      | tuple _ => rfl
    · simp only [h, if_false]
      have : Dict.get? (mergeWrapStep k1 d (k0, v0)) k = Dict.get? d k := by
        cases v0 with
        | scalar s => simp only [mergeWrapStep, writeItem_eq]; rw [get?_set]; simp [h]
        | list _ => rfl
        | tuple _ => rfl
      rw [this]

theorem keys_foldl_wrapStep (k1 : Kind) (l : Dict PyVal) : ∀ (d : Dict PyVal),
    (∀ k ∈ Dict.keys l, k ∈ Dict.keys d) → Dict.keys (l.foldl (mergeWrapStep k1) d) = Dict.keys d := by
  induction l with
  | nil => intro d _; rfl
  | cons p l ih =>
    intro d hsub
    obtain ⟨k0, v0⟩ := p
    have h0 : k0 ∈ Dict.keys d := hsub k0 (by rw [keys_cons]; exact List.mem_cons_self ..)
    have hk : Dict.keys (mergeWrapStep k1 d (k0, v0)) = Dict.keys d := by
      cases v0 with
      | scalar s => simp only [mergeWrapStep, writeItem_eq]; exact keys_set_of_mem d k0 _ h0
      | list _ => rfl
      | tuple _ => rfl
    rw [List.foldl_cons, ih]
    · exact hk
    · intro k hk'
      rw [hk]
      exact hsub k (by rw [keys_cons]; exact List.mem_cons_of_mem _ hk')

theorem get?_mergeWrap (k1 : Kind) (view : Bool) (hread : ∀ v, readVal k1 view v = v) (d : Dict PyVal)
    (hn : (Dict.keys d).Nodup) (k : Str) :
    Dict.get? (mergeWrap k1 view d) k = (Dict.get? d k).map PyVal.wrap := by
  unfold mergeWrap
  rw [readItems_id k1 view hread, get?_foldl_wrapStep k1 d d hn k]
  cases h : Dict.get? d k with
  | none => rfl
  | some v => cases v <;> rfl

theorem keys_mergeWrap (k1 : Kind) (view : Bool) (hread : ∀ v, readVal k1 view v = v) (d : Dict PyVal) :
    Dict.keys (mergeWrap k1 view d) = Dict.keys d := by
  unfold mergeWrap
  rw [readItems_id k1 view hread]
  exact keys_foldl_wrapStep k1 d d (fun _ h => h)

/-! ### stage D: `new_d[k].extend(v)` for the shared keys -/

def appendTo (v : PyVal) : PyVal → PyVal
  | .list l0 => .list (l0 ++ v.toList)
  | x => x

theorem foldlM_extend (k1 : Kind) (view : Bool) (hread : ∀ v, readVal k1 view v = v) (a2 : Dict PyVal)
    (l : Dict PyVal) : ∀ (d : Dict PyVal), (Dict.keys l).Nodup →
    (∀ k v, Dict.get? l k = some v → Dict.contains a2 k = true → ∃ l0, Dict.get? d k = some (.list l0)) →
    ∃ d', l.foldlM (mergeExtendStep k1 view a2) d = .ok d' ∧ Dict.keys d' = Dict.keys d ∧
      ∀ k, Dict.get? d' k =
        match Dict.get? l k with
        | some v => if Dict.contains a2 k = true then (Dict.get? d k).map (appendTo v) else Dict.get? d k
        | none => Dict.get? d k := by
  induction l with
  | nil =>
    intro d _ _
    exact ⟨d, rfl, rfl, fun k => by simp [Dict.get?]⟩
  | cons p l ih =>
    intro d hn hl
    obtain ⟨k0, v0⟩ := p
    rw [keys_cons, List.nodup_cons] at hn
    have hnone : Dict.get? l k0 = none := (get?_eq_none_iff l k0).2 hn.1
    -- the first iteration
    have hstep : ∃ d1, mergeExtendStep k1 view a2 d (k0, v0) = .ok d1 ∧ Dict.keys d1 = Dict.keys d ∧
        (∀ k, k ≠ k0 → Dict.get? d1 k = Dict.get? d k) ∧
        Dict.get? d1 k0 = if Dict.contains a2 k0 = true then (Dict.get? d k0).map (appendTo v0)
          else Dict.get? d k0 := by
      unfold mergeExtendStep
      by_cases hc : Dict.contains a2 k0 = true
      · obtain ⟨l0, hl0⟩ := hl k0 v0 (by simp [Dict.get?]) hc
        simp only [hc, if_true, hl0, hread]
        refine ⟨_, rfl, ?_, ?_, ?_⟩
        · exact keys_set_of_mem d k0 _ ((get?_isSome_iff d k0).1 (by rw [hl0]; rfl))
        · intro k hk
          rw [get?_set]
          have : ¬ k0 = k := fun e => hk e.symm
          simp [this]
        · rw [get?_set_self]; rfl
      · simp only [hc]
        exact ⟨d, rfl, rfl, fun _ _ => rfl, by simp⟩
    obtain ⟨d1, hs, hk1, hother, hself⟩ := hstep
    have hl' : ∀ k v, Dict.get? l k = some v → Dict.contains a2 k = true →
        ∃ l0, Dict.get? d1 k = some (.list l0) := by
      intro k v hk hc
      have hne : k ≠ k0 := by
        intro e; subst e; rw [hnone] at hk; cases hk
      rw [hother k hne]
      apply hl k v _ hc
      simp only [Dict.get?]
      have : ¬ k0 = k := fun e => hne e.symm
      simp [this, hk]
    obtain ⟨d', hd', hk', hg'⟩ := ih d1 hn.2 hl'
    refine ⟨d', ?_, hk'.trans hk1, ?_⟩
    · rw [List.foldlM_cons, hs]
      exact hd'
    · intro k
      rw [hg' k]
      simp only [Dict.get?]
      by_cases h : k0 = k
      · subst h
        simp only [hnone, if_true]
        exact hself
      · have hne : k ≠ k0 := fun e => h e.symm
        simp only [h, if_false, hother k hne]

/-! ### stage E -/

theorem get?_map_val {α β : Type} (f : α → β) (d : Dict α) (k : Str) :
    Dict.get? (d.map (fun p => (p.1, f p.2))) k = (Dict.get? d k).map f := by
  induction d with
  | nil => rfl
  | cons p d ih =>
    simp only [List.map_cons, Dict.get?]
    split
    · rfl
    · exact ih

theorem keys_map_val {α β : Type} (f : α → β) (d : Dict α) :
    Dict.keys (d.map (fun p => (p.1, f p.2))) = Dict.keys d := by
  simp [Dict.keys]

end GffProofs.MergeL
