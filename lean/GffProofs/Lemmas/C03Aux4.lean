/-
  C03 — helper lemmas, part 4: `_update_relations` on the populated table, as a whole.
-/
import GffProofs.Lemmas.C03Aux3

namespace GffProofs.C03
open GffModel GffModel.Create GffModel.Interface
open GffProofs.C04 (autoId incr_spec)
open GffProofs.C11 (dedup_exact strLe_total strLe_trans strLe_antisymm)

/-- the derived features of the populated table with their ids, in insertion order -/
def derivedList (cfg : Cfg) (db0 : Db) : List (Str × Feature) :=
  specD cfg.disableTranscripts cfg.disableGenes (mkT cfg db0) (mkG cfg db0) none (sortedPairs cfg db0)

/-- the rows the second pass appends: the derived features whose id is not yet taken -/
def derivedRows (cfg : Cfg) (db0 : Db) : List Row :=
  ((derivedList cfg db0).filter (fun kf => !(db0.features.map (·.id)).contains kf.1)).map
    (fun kf => lineRow kf.2 kf.1)

theorem specD_disabled (mT : Str → Str → Feature) (mG : Str → Feature) (ps : List (Str × Str)) :
    ∀ last, specD true true mT mG last ps = [] := by
  induction ps with
  | nil => intro last; rfl
  | cons tg ps ih => intro last; obtain ⟨t, g⟩ := tg; simp [specD, ih]

theorem st2_self (db0 : Db) : st2 db0 [] db0.duplicates = db0 := by
  cases db0; simp [st2]

/-- at most one element -/
theorem length_le_one_of_all_eq {l : List Str} (hn : l.Nodup) (h : ∀ a ∈ l, ∀ b ∈ l, a = b) : l.length ≤ 1 := by
  match l, hn, h with
  | [], _, _ => simp
  | [_], _, _ => simp
  | a :: b :: _, hn, h =>
    have : a = b := h a (by simp) b (by simp)
    subst this
    simp at hn

theorem flatMap_fst_sublist (inner : Str → List Str) (L : List Str) (h : ∀ t ∈ L, (inner t).length ≤ 1) :
    ((L.flatMap (fun t => (inner t).map (fun g => (t, g)))).map (·.1)).Sublist L := by
  induction L with
  | nil => simp
  | cons t L ih =>
    have ih' := ih (fun t ht => h t (by simp [ht]))
    rw [List.flatMap_cons, List.map_append]
    have h1 := h t (by simp)
    match hi : inner t, h1 with
    | [], _ => simpa using List.Sublist.cons t ih'
    | [g], _ => simpa using List.Sublist.cons_cons t ih'
    | _ :: _ :: _, h1 => simp at h1

section master
variable {cfg : Cfg} {fs : List Feature} (hc : CfgOk cfg) (h : GtfOk cfg fs) (he : ExtOk cfg fs)
  {db : Db} {auto : Dict Nat} (inv : PopInv cfg fs db auto)
include hc h he inv

theorem mem_sortedPairs (tg : Str × Str) : tg ∈ sortedPairs cfg db ↔ TOwns cfg fs tg.1 tg.2 := by
  unfold sortedPairs
  rw [List.mem_mergeSort]
  exact mem_pairsOf_owns hc h he inv tg.1 tg.2

theorem sortedPairs_fst_nodup : ((sortedPairs cfg db).map (·.1)).Nodup := by
  have hp : ((sortedPairs cfg db).map (·.1)).Perm ((pairsOf cfg db).map (·.1)) :=
    (List.mergeSort_perm _ _).map _
  rw [hp.nodup_iff]
  unfold pairsOf
  refine (flatMap_fst_sublist _ _ ?_).nodup (dedup_exact _).1
  intro t ht
  apply length_le_one_of_all_eq (dedup_exact _).1
  intro a ha b hb
  have ha' : (t, a) ∈ pairsOf cfg db := by
    unfold pairsOf
    exact List.mem_flatMap.mpr ⟨t, ht, List.mem_map.mpr ⟨a, ha, rfl⟩⟩
  have hb' : (t, b) ∈ pairsOf cfg db := by
    unfold pairsOf
    exact List.mem_flatMap.mpr ⟨t, ht, List.mem_map.mpr ⟨b, hb, rfl⟩⟩
  obtain ⟨f, hf, _, htid, hgid⟩ := (mem_pairsOf_owns hc h he inv t a).mp ha'
  obtain ⟨f', hf', _, htid', hgid'⟩ := (mem_pairsOf_owns hc h he inv t b).mp hb'
  exact he.oneGene f hf f' hf' t a b htid htid' hgid hgid'

omit hc h he inv in
theorem sortedPairs_sorted : (sortedPairs cfg db).Pairwise (fun a b => strLe a.2 b.2 = true) := by
  unfold sortedPairs
  apply List.pairwise_mergeSort
  · intro a b c h1 h2; exact strLe_trans _ _ _ h1 h2
  · intro a b
    rcases strLe_total a.2 b.2 with h | h <;> simp [h]

theorem derivedList_nodup : ((derivedList cfg db).map (·.1)).Nodup := by
  unfold derivedList
  rw [specD_map_fst]
  refine (idsD_nodup _ _ _ none (sortedPairs_fst_nodup hc h he inv) sortedPairs_sorted ?_ ?_).1
  · intro a ha b hb e
    obtain ⟨f, hf, _, htid, _⟩ := (mem_sortedPairs hc h he inv a).mp ha
    obtain ⟨f', hf', _, _, hgid'⟩ := (mem_sortedPairs hc h he inv b).mp hb
    exact h.tgDisjoint _ (mem_tids hf htid) (e ▸ mem_gids hf' hgid')
  · intro g0 hg0; cases hg0

/-- membership in the derived list -/
theorem mem_derivedList (kf : Str × Feature) :
    kf ∈ derivedList cfg db ↔
      (cfg.disableTranscripts = false ∧ ∃ t g, TOwns cfg fs t g ∧ kf = (t, mkT cfg db t g)) ∨
      (cfg.disableGenes = false ∧ ∃ g, GOwns cfg fs g ∧ kf = (g, mkG cfg db g)) := by
  unfold derivedList
  constructor
  · intro hkf
    rcases mem_specD_imp _ _ _ _ _ _ kf hkf with ⟨h1, t, g, hm, e⟩ | ⟨h1, t, g, hm, e⟩
    · exact Or.inl ⟨h1, t, g, (mem_sortedPairs hc h he inv (t, g)).mp hm, e⟩
    · exact Or.inr ⟨h1, g, ⟨t, (mem_sortedPairs hc h he inv (t, g)).mp hm⟩, e⟩
  · rintro (⟨h1, t, g, ho, rfl⟩ | ⟨h1, g, ⟨t, ho⟩, rfl⟩)
    · exact mem_specD_T _ _ _ _ h1 _ none t g ((mem_sortedPairs hc h he inv (t, g)).mpr ho)
    · exact mem_specD_G _ _ _ _ h1 _ none t g ((mem_sortedPairs hc h he inv (t, g)).mpr ho) (by simp)

/-- all ids that can ever be stored -/
def allIds (cfg : Cfg) (fs : List Feature) : List Str := (keyed cfg fs).map (·.2) ++ tids cfg fs ++ gids cfg fs

theorem updateRelationsGtf_master (hm : MergeOk cfg fs) :
    ∃ dups auto', updateRelationsGtf cfg db auto = .ok (st2 db (derivedRows cfg db) dups, auto') := by
  rw [updateRelationsGtf_eq]
  by_cases hflags : (cfg.disableGenes && cfg.disableTranscripts) = true
  · rw [if_pos hflags]
    simp only [Bool.and_eq_true] at hflags
    refine ⟨db.duplicates, auto, ?_⟩
    have : derivedRows cfg db = [] := by
      unfold derivedRows derivedList
      rw [hflags.1, hflags.2, specD_disabled]; rfl
    rw [this, st2_self]
  · rw [if_neg hflags]
    -- first pass
    obtain ⟨last', h1⟩ := foldlM_step1 cfg db (sortedPairs cfg db)
      (by
        intro _ tg htg
        obtain ⟨f, hf, hft, htid, _⟩ := (mem_sortedPairs hc h he inv tg).mp htg
        obtain ⟨s, e, st, sq, hx, _⟩ := extent_T hc h he inv ⟨f, hf, hft, htid⟩
        exact ⟨s, e, st, sq, hx⟩)
      (by
        intro _ tg htg
        obtain ⟨f, hf, hft, _, hgid⟩ := (mem_sortedPairs hc h he inv tg).mp htg
        obtain ⟨s, e, st, sq, hx, _⟩ := extent_G hc h he inv ⟨f, hf, hft, hgid⟩
        exact ⟨s, e, st, sq, hx⟩)
      [] none
    simp only [bind, Except.bind, h1, List.nil_append]
    -- second pass
    have h2 := foldlM_step2 cfg db (allIds cfg fs) (derivedList cfg db)
      (by
        intro kf hkf auto
        rcases (mem_derivedList hc h he inv kf).mp hkf with ⟨_, t, g, _, rfl⟩ | ⟨_, g, _, rfl⟩
        · exact idHandler_tr cfg hc auto _ t rfl (by simp [mkT, derivedOf, Dict.get?])
        · exact idHandler_gene cfg hc auto _ g rfl (by simp [mkG, derivedOf, Dict.get?]))
      (derivedList_nodup hc h he inv)
      (by
        intro r hr
        have : r.id ∈ db.features.map (·.id) := List.mem_map.mpr ⟨r, hr, rfl⟩
        rw [ids_eq_keys inv] at this
        simp [allIds, this])
      (by
        intro kf hkf
        rcases (mem_derivedList hc h he inv kf).mp hkf with ⟨_, t, g, ⟨f, hf, _, htid, _⟩, rfl⟩ |
          ⟨_, g, ⟨t, f, hf, _, _, hgid⟩, rfl⟩
        · simp [allIds, mem_tids hf htid]
        · simp [allIds, mem_gids hf hgid])
      (by
        intro kf hkf ex hex
        obtain ⟨f', hf', rfl⟩ := getRow_some inv hex
        have hidk : kf.1 ∈ tids cfg fs ∨ kf.1 ∈ gids cfg fs := by
          rcases (mem_derivedList hc h he inv kf).mp hkf with ⟨_, t, g, ⟨f, hf, _, htid, _⟩, rfl⟩ |
            ⟨_, g, ⟨t, f, hf, _, _, hgid⟩, rfl⟩
          · exact Or.inl (mem_tids hf htid)
          · exact Or.inr (mem_gids hf hgid)
        have hex' : explicit f' = true := explicit_of_id_key h hf' hidk
        have hsrc : kf.2.source = derivedSrc := by
          rcases (mem_derivedList hc h he inv kf).mp hkf with ⟨_, t, g, _, rfl⟩ | ⟨_, g, _, rfl⟩ <;> rfl
        refine ⟨?_, hm.srcCompared ⟨f', mem_of_mem_keyed hf', hex'⟩, ?_⟩
        · rw [hsrc]; exact hm.srcNotDerived f' (mem_of_mem_keyed hf') hex'
        · intro n
          obtain ⟨h1, h2, h3⟩ := hm.noSuffixed (f', kf.1) hf' hex' n
          simp only [allIds, List.mem_append, not_or]
          exact ⟨⟨h1, h2⟩, h3⟩)
      [] db.duplicates auto (by intro r hr; cases hr) (by rw [inv.dups]; intro on hon; cases hon)
    obtain ⟨dups', auto', h2⟩ := h2
    rw [st2_self] at h2
    refine ⟨dups', auto', ?_⟩
    simp only [List.nil_append] at h2
    exact h2

omit hc he in
/-- a transcript / gene id is a stored key exactly when it has an explicit line -/
theorem key_iff_hasExplicit {k : Str} (hk : k ∈ tids cfg fs ∨ k ∈ gids cfg fs) :
    k ∈ db.features.map (·.id) ↔ HasExplicit cfg fs k := by
  rw [ids_eq_keys inv]
  constructor
  · intro hin
    obtain ⟨fk, hfk, rfl⟩ := List.mem_map.mp hin
    exact ⟨fk, hfk, explicit_of_id_key h hfk hk, rfl⟩
  · rintro ⟨fk, hfk, _, rfl⟩
    exact List.mem_map.mpr ⟨fk, hfk, rfl⟩

theorem mem_derivedRows (row : Row) :
    row ∈ derivedRows cfg db ↔
      (cfg.disableTranscripts = false ∧ ∃ t g, TOwns cfg fs t g ∧ ¬ HasExplicit cfg fs t ∧
        row = lineRow (mkT cfg db t g) t) ∨
      (cfg.disableGenes = false ∧ ∃ g, GOwns cfg fs g ∧ ¬ HasExplicit cfg fs g ∧
        row = lineRow (mkG cfg db g) g) := by
  unfold derivedRows
  have hnc : ∀ k : Str, (!(db.features.map (·.id)).contains k) = true ↔ k ∉ db.features.map (·.id) := by
    intro k; rw [Bool.not_eq_true', ← Bool.not_eq_true, List.contains_iff_mem]
  constructor
  · intro hrow
    obtain ⟨kf, hkf, rfl⟩ := List.mem_map.mp hrow
    obtain ⟨hkf, hfresh⟩ := List.mem_filter.mp hkf
    rw [hnc] at hfresh
    rcases (mem_derivedList hc h he inv kf).mp hkf with ⟨h1, t, g, ho, rfl⟩ | ⟨h1, g, ho, rfl⟩
    · obtain ⟨f, hf, _, htid, _⟩ := ho
      refine Or.inl ⟨h1, t, g, ⟨f, hf, ‹_›, htid, ‹_›⟩, ?_, rfl⟩
      rw [← key_iff_hasExplicit h inv (Or.inl (mem_tids hf htid))]; exact hfresh
    · obtain ⟨t, f, hf, _, _, hgid⟩ := ho
      refine Or.inr ⟨h1, g, ⟨t, f, hf, ‹_›, ‹_›, hgid⟩, ?_, rfl⟩
      rw [← key_iff_hasExplicit h inv (Or.inr (mem_gids hf hgid))]; exact hfresh
  · rintro (⟨h1, t, g, ho, hne, rfl⟩ | ⟨h1, g, ho, hne, rfl⟩)
    · refine List.mem_map.mpr ⟨(t, mkT cfg db t g), List.mem_filter.mpr
        ⟨(mem_derivedList hc h he inv _).mpr (Or.inl ⟨h1, t, g, ho, rfl⟩), ?_⟩, rfl⟩
      obtain ⟨f, hf, _, htid, _⟩ := ho
      rw [hnc, key_iff_hasExplicit h inv (Or.inl (mem_tids hf htid))]; exact hne
    · refine List.mem_map.mpr ⟨(g, mkG cfg db g), List.mem_filter.mpr
        ⟨(mem_derivedList hc h he inv _).mpr (Or.inr ⟨h1, g, ho, rfl⟩), ?_⟩, rfl⟩
      obtain ⟨t, f, hf, _, _, hgid⟩ := ho
      rw [hnc, key_iff_hasExplicit h inv (Or.inr (mem_gids hf hgid))]; exact hne

theorem isTranscriptRow_mkT {t g : Str} (ho : TOwns cfg fs t g) :
    IsTranscriptRow cfg fs t g (lineRow (mkT cfg db t g) t) := by
  obtain ⟨f, hf, hft, htid, _⟩ := ho
  obtain ⟨s, e, st, sq, hx, hmin, hmax, hag⟩ := extent_T hc h he inv ⟨f, hf, hft, htid⟩
  have hext : extOr db cfg.subfeature t = (some s, some e, st, sq) := by simp [extOr, hx]
  unfold IsTranscriptRow
  refine ⟨rfl, rfl, rfl, ⟨s, ?_, hmin⟩, ⟨e, ?_, hmax⟩, ?_, ?_, rfl, rfl, rfl, rfl, rfl⟩
  · simp [lineRow, mkT, derivedOf, hext]
  · simp [lineRow, mkT, derivedOf, hext]
  · intro f' hf'; simp [lineRow, mkT, derivedOf, hext, (hag f' hf').1]
  · intro f' hf'; simp [lineRow, mkT, derivedOf, hext, (hag f' hf').2]

theorem isGeneRow_mkG {g : Str} (ho : GOwns cfg fs g) :
    IsGeneRow cfg fs g (lineRow (mkG cfg db g) g) := by
  obtain ⟨t, f, hf, hft, _, hgid⟩ := ho
  obtain ⟨s, e, st, sq, hx, hmin, hmax, hag⟩ := extent_G hc h he inv ⟨f, hf, hft, hgid⟩
  have hext : extOr db cfg.subfeature g = (some s, some e, st, sq) := by simp [extOr, hx]
  unfold IsGeneRow
  refine ⟨rfl, rfl, rfl, ⟨s, ?_, hmin⟩, ⟨e, ?_, hmax⟩, ?_, ?_, rfl, rfl, rfl, rfl, rfl⟩
  · simp [lineRow, mkG, derivedOf, hext]
  · simp [lineRow, mkG, derivedOf, hext]
  · intro f' hf'; simp [lineRow, mkG, derivedOf, hext, (hag f' hf').1]
  · intro f' hf'; simp [lineRow, mkG, derivedOf, hext, (hag f' hf').2]

/-- ids stay pairwise distinct -/
theorem final_ids_nodup : ((db.features ++ derivedRows cfg db).map (·.id)).Nodup := by
  rw [List.map_append, List.nodup_append]
  refine ⟨by rw [ids_eq_keys inv]; exact h.keysNodup, ?_, ?_⟩
  · unfold derivedRows
    rw [List.map_map]
    have : ((fun (x : Row) => x.id) ∘ fun (kf : Str × Feature) => lineRow kf.2 kf.1) = (·.1) := by
      funext kf; rfl
    rw [this]
    exact (List.filter_sublist.map _).nodup (derivedList_nodup hc h he inv)
  · intro a ha b hb e
    subst e
    unfold derivedRows at hb
    rw [List.map_map] at hb
    obtain ⟨kf, hkf, hkfe⟩ := List.mem_map.mp hb
    have hfl := (List.mem_filter.mp hkf).2
    simp only [Function.comp, lineRow_id] at hkfe
    subst hkfe
    rw [Bool.not_eq_true', ← Bool.not_eq_true, List.contains_iff_mem] at hfl
    exact hfl ha

end master

end GffProofs.C03
