/-
  Stage (v) of `splitInfer`: the loop over the `(key, value text)` pairs.
-/
import GffProofs.Lemmas.C07Stages
import GffProofs.Lemmas.C07Rec

namespace GffProofs.C07
open GffModel GffModel.Parser GffModel.Grammar

theorem foldlM_stepO (pairs : List (Str × Str)) (g : Str × Str → List Str)
    (hg : ∀ kv ∈ pairs, ∀ sep, keyVal sep (g kv) = .ok kv) (init : Attrs × Dialect) :
    (pairs.map g).foldlM stepO init = .ok (pairs.foldl stepPure init) := by
  induction pairs generalizing init with
  | nil => rfl
  | cons kv rest ih =>
    simp only [List.map_cons, List.foldlM_cons, List.foldl_cons]
    rw [stepO_eq init (g kv) kv (hg kv (by simp) _)]
    simp only [bind, Except.bind]
    exact ih (fun kv' h => hg kv' (by simp [h])) _

theorem mapM_ok {α β} (f : α → Py β) (g : α → β) (l : List α) (h : ∀ x ∈ l, f x = .ok (g x)) :
    l.mapM f = .ok (l.map g) := by
  induction l with
  | nil => rfl
  | cons x l ih =>
    rw [List.mapM_cons, h x (by simp), ih (fun y hy => h y (by simp [hy]))]
    rfl

theorem isQuotedVal_wrap (X : Str) : isQuotedVal ('"' :: X ++ ['"']) = true := by
  have : ('"' :: (X ++ ['"'])).getLast? = some '"' := by
    rw [← List.cons_append, List.getLast?_append]; simp
  simp [isQuotedVal, this]

theorem stripQuotes_wrap (X : Str) : stripQuotes ('"' :: X ++ ['"']) = X := by
  simp [stripQuotes]

theorem contains_fresh (quals : Attrs) (key : Str) (h : ∀ p ∈ quals, p.1 ≠ key) :
    Dict.contains quals key = false := by
  unfold Dict.contains; rw [Dict.get?_fresh quals key h]; rfl

theorem contains_last (quals : Attrs) (key : Str) (cur : List Str) (h : ∀ p ∈ quals, p.1 ≠ key) :
    Dict.contains (quals ++ [(key, cur)]) key = true := by
  unfold Dict.contains; rw [Dict.get?_last quals key cur h]; rfl

theorem step_flag_plain (quals : Attrs) (d : Dialect) (key : Str) (h : ∀ p ∈ quals, p.1 ≠ key) :
    stepPure (quals, d) (key, []) = (quals ++ [(key, [])], { d with order := d.order ++ [key] }) := by
  simp [stepPure, contains_fresh quals key h, Dict.set_fresh quals key [] h, isQuotedVal]

theorem step_flag_gtf (quals : Attrs) (d : Dialect) (key : Str) (h : ∀ p ∈ quals, p.1 ≠ key) :
    stepPure (quals, d) (key, ['"', '"']) =
      (quals ++ [(key, [])], { d with quoted := true, order := d.order ++ [key] }) := by
  simp [stepPure, contains_fresh quals key h, Dict.set_fresh quals key [] h, isQuotedVal, stripQuotes]

theorem step_fresh (s : LineSpec) (quals : Attrs) (d : Dialect) (key X : Str) (xs : List Str)
    (h : ∀ p ∈ quals, p.1 ≠ key) (hX : X ≠ []) (hq : s.quoted = false → isQuotedVal X = false)
    (hxs : Str.split [','] X = xs) (hh : ∀ x ∈ xs, x.head? ≠ some ' ')
    (hr : d.repeatedKeys = true → xs = [X]) :
    stepPure (quals, d) (key, wrapQ s X) =
      (quals ++ [(key, xs)], { d with quoted := d.quoted || s.quoted, order := d.order ++ [key] }) := by
  have hany : xs.any (fun i => i.head? == some ' ') = false := by
    simp only [List.any_eq_false, beq_iff_eq]; exact hh
  obtain ⟨ls, ts, q, fs, kv, ms, fmt, rk, ord⟩ := d
  simp only [] at hr
  unfold stepPure wrapQ
  simp only [contains_fresh quals key h, Dict.set_fresh quals key [] h, Bool.false_eq_true, if_false]
  by_cases hsq : s.quoted = true
  · simp only [hsq, if_true, isQuotedVal_wrap, stripQuotes_wrap, Dict.get?_last quals key [] h,
      Dict.set_last quals key _ _ h, hxs, hany, Bool.false_eq_true, if_false, Option.getD_some, List.nil_append]
    have hXe : X.isEmpty = false := by simpa using hX
    simp only [hXe, Bool.not_false, if_true, Bool.or_true]
    cases rk with
    | false => simp
    | true => simp [hr rfl]
  · have hsq' : s.quoted = false := by simpa using hsq
    simp only [hsq', Bool.false_eq_true, if_false, hq hsq', Dict.get?_last quals key [] h,
      Dict.set_last quals key _ _ h, hxs, hany, Option.getD_some, List.nil_append, Bool.or_false]
    have hXe : X.isEmpty = false := by simpa using hX
    simp only [hXe, Bool.not_false, if_true]
    cases rk with
    | false => simp
    | true => simp [hr rfl]

theorem step_seen (s : LineSpec) (quals : Attrs) (d : Dialect) (key X : Str) (cur : List Str)
    (h : ∀ p ∈ quals, p.1 ≠ key) (hX : X ≠ []) (hq : s.quoted = false → isQuotedVal X = false) :
    stepPure (quals ++ [(key, cur)], d) (key, wrapQ s X) =
      (quals ++ [(key, cur ++ [X])],
        { d with repeatedKeys := true, quoted := d.quoted || s.quoted, order := d.order ++ [key] }) := by
  obtain ⟨ls, ts, q, fs, kv, ms, fmt, rk, ord⟩ := d
  unfold stepPure wrapQ
  have hXe : X.isEmpty = false := by simpa using hX
  simp only [contains_last quals key cur h, if_true]
  by_cases hsq : s.quoted = true
  · simp only [hsq, if_true, isQuotedVal_wrap, stripQuotes_wrap, Dict.get?_last quals key cur h,
      Dict.set_last quals key _ _ h, Option.getD_some, hXe, Bool.not_false, Bool.or_true]
  · have hsq' : s.quoted = false := by simpa using hsq
    simp only [hsq', Bool.false_eq_true, if_false, hq hsq', Dict.get?_last quals key cur h,
      Dict.set_last quals key _ _ h, Option.getD_some, hXe, Bool.not_false, if_true, Bool.or_false]

end GffProofs.C07
