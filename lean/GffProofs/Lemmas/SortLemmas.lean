/-
  Lemmas for C17: `sorted(set(values))` and the numeric variant of `merge_attributes`
  (`GffModel.finalSort`) produce the sorted duplicate-free union.
-/
import GffModel.AttrsModel
import GffProofs.Props.C09

namespace GffProofs.SortL
open GffModel

theorem strLe_iff (a b : Str) : strLe a b = true ↔ a ≤ b := by simp [strLe]

theorem strLe_trans (a b c : Str) (h1 : strLe a b = true) (h2 : strLe b c = true) : strLe a c = true := by
  rw [strLe_iff] at *; exact List.le_trans h1 h2

theorem strLe_total (a b : Str) : (strLe a b || strLe b a) = true := by
  rw [Bool.or_eq_true, strLe_iff, strLe_iff]; exact List.le_total a b

theorem lt_of_le_of_ne (a b : Str) (h : a ≤ b) (hne : a ≠ b) : a < b := by
  apply Classical.byContradiction
  intro hn
  exact hne (List.le_antisymm h (List.not_lt.1 hn))

theorem mem_sortStrs (l : List Str) (x : Str) : x ∈ sortStrs l ↔ x ∈ l :=
  (List.mergeSort_perm l strLe).mem_iff

theorem sortStrs_strict (l : List Str) (hn : l.Nodup) : (sortStrs l).Pairwise (· < ·) := by
  have h1 : (sortStrs l).Pairwise (fun a b => strLe a b = true) :=
    List.pairwise_mergeSort strLe_trans strLe_total l
  have h2 : (sortStrs l).Nodup := (List.mergeSort_perm l strLe).nodup_iff.2 hn
  exact (h1.and h2).imp (fun ⟨hab, hne⟩ => lt_of_le_of_ne _ _ ((strLe_iff _ _).1 hab) hne)

/-! ### numeric order -/

/-- all values are numbers of the decimal grammar -/
def AllNumeric (vs : List Str) : Prop := ∀ x ∈ vs, (decKey? x).isSome = true

/-- the value of a decimal (times `10^15`); `0` outside the grammar -/
def numVal (s : Str) : Int := (decKey? s).getD 0

/-- Python's strict order on `(float(v), v)`: by value, equal values by the string -/
def numLt (a b : Str) : Prop := numVal a < numVal b ∨ (numVal a = numVal b ∧ a < b)

theorem numLe_trans (a b c : Int × Str) (h1 : numLe a b = true) (h2 : numLe b c = true) : numLe a c = true := by
  simp only [numLe, Bool.or_eq_true, Bool.and_eq_true, decide_eq_true_eq, strLe_iff] at *
  rcases h1 with h1 | ⟨h1, h1'⟩ <;> rcases h2 with h2 | ⟨h2, h2'⟩
  · left; omega
  · left; omega
  · left; omega
  · right; exact ⟨by omega, List.le_trans h1' h2'⟩

theorem numLe_total (a b : Int × Str) : (numLe a b || numLe b a) = true := by
  simp only [numLe, Bool.or_eq_true, Bool.and_eq_true, decide_eq_true_eq, strLe_iff]
  rcases Int.lt_trichotomy a.1 b.1 with h | h | h
  · left; left; exact h
  · rcases List.le_total a.2 b.2 with h' | h'
    · left; right; exact ⟨h, h'⟩
    · right; right; exact ⟨h.symm, h'⟩
  · right; left; exact h

theorem mapM_option_some {α β : Type} (f : α → Option β) (g : α → β) (l : List α)
    (h : ∀ x ∈ l, f x = some (g x)) : l.mapM f = some (l.map g) := by
  induction l with
  | nil => rfl
  | cons a l ih =>
    rw [List.mapM_cons, h a (List.mem_cons_self ..), ih (fun x hx => h x (List.mem_cons_of_mem _ hx))]
    rfl

theorem mapM_option_none {α β : Type} (f : α → Option β) (l : List α) (x : α) (hx : x ∈ l)
    (h : f x = none) : l.mapM f = none := by
  induction l with
  | nil => cases hx
  | cons a l ih =>
    rw [List.mapM_cons]
    rcases List.mem_cons.1 hx with e | e
    · subst e; rw [h]; rfl
    · rw [ih e]
      cases f a <;> rfl

theorem sortNumeric_of_all (u : List Str) (h : AllNumeric u) :
    sortNumeric u = some (((u.map (fun s => (numVal s, s))).mergeSort numLe).map (·.2)) := by
  unfold sortNumeric
  rw [mapM_option_some (fun s => (decKey? s).map (fun k => (k, s))) (fun s => (numVal s, s)) u]
  · rfl
  · intro x hx
    have := h x hx
    unfold numVal
    cases hh : decKey? x with
    | none => rw [hh] at this; cases this
    | some k => rfl

theorem sortNumeric_of_not_all (u : List Str) (h : ¬ AllNumeric u) : sortNumeric u = none := by
  unfold sortNumeric
  have : ∃ x ∈ u, decKey? x = none := by
    apply Classical.byContradiction
    intro hn
    apply h
    intro x hx
    cases hh : decKey? x with
    | none => exact absurd ⟨x, hx, hh⟩ hn
    | some k => rfl
  obtain ⟨x, hx, hh⟩ := this
  rw [mapM_option_none _ u x hx (by rw [hh]; rfl)]
  rfl

/-- `out` is the sorted duplicate-free union `src` stands for: the same elements, strictly increasing —
in numeric order (ties by the string) when `numeric_sort` is on and every value is a number, in string
order otherwise.  A strictly increasing list has no duplicates and is determined by its elements. -/
structure SortedUnion (numericSort : Bool) (src out : List Str) : Prop where
  mem : ∀ x, x ∈ out ↔ x ∈ src
  numeric : numericSort = true → AllNumeric src → out.Pairwise numLt
  lexical : ¬ (numericSort = true ∧ AllNumeric src) → out.Pairwise (· < ·)

theorem allNumeric_congr {a b : List Str} (h : ∀ x, x ∈ a ↔ x ∈ b) : AllNumeric a ↔ AllNumeric b :=
  ⟨fun ha x hx => ha x ((h x).2 hx), fun hb x hx => hb x ((h x).1 hx)⟩

theorem SortedUnion.congr {n : Bool} {src src' out : List Str} (h : ∀ x, x ∈ src ↔ x ∈ src')
    (s : SortedUnion n src out) : SortedUnion n src' out where
  mem x := (s.mem x).trans (h x)
  numeric hn ha := s.numeric hn ((allNumeric_congr h).2 ha)
  lexical hh := s.lexical (fun ⟨a, b⟩ => hh ⟨a, (allNumeric_congr h).1 b⟩)

theorem finalSort_spec (numericSort : Bool) (vs : List Str) :
    SortedUnion numericSort vs (finalSort numericSort vs) := by
  have hd := GffProofs.C09.dedup_nodup vs
  have hm := GffProofs.C09.mem_dedup vs
  have hall : AllNumeric (dedup vs) ↔ AllNumeric vs := allNumeric_congr hm
  unfold finalSort
  cases numericSort with
  | false =>
    simp only [Bool.false_eq_true, if_false]
    exact ⟨fun x => (mem_sortStrs _ x).trans (hm x), fun h _ => (by cases h), fun _ => sortStrs_strict _ hd⟩
  | true =>
    simp only [if_true]
    by_cases ha : AllNumeric (dedup vs)
    · rw [sortNumeric_of_all _ ha]
      simp only
      have hp := List.mergeSort_perm ((dedup vs).map (fun s => (numVal s, s))) numLe
      refine ⟨fun x => ?_, fun _ _ => ?_, fun hh => absurd ⟨rfl, hall.1 ha⟩ hh⟩
      · rw [← hm x]
        simp only [List.mem_map]
        constructor
        · rintro ⟨p, hp', rfl⟩
          obtain ⟨s, hs, rfl⟩ := List.mem_map.1 (hp.mem_iff.1 hp')
          exact hs
        · intro hx
          exact ⟨(numVal x, x), hp.mem_iff.2 (List.mem_map.2 ⟨x, hx, rfl⟩), rfl⟩
      · rw [List.pairwise_map]
        have h1 := List.pairwise_mergeSort numLe_trans numLe_total ((dedup vs).map (fun s => (numVal s, s)))
        have hnd : ((dedup vs).map (fun s => (numVal s, s))).Nodup :=
          List.Pairwise.map _ (fun a b hne e => hne (congrArg Prod.snd e)) hd
        have h2 : (((dedup vs).map (fun s => (numVal s, s))).mergeSort numLe).Nodup := hp.nodup_iff.2 hnd
        have h3 : ∀ p ∈ ((dedup vs).map (fun s => (numVal s, s))).mergeSort numLe, p.1 = numVal p.2 := by
          intro p hp'
          obtain ⟨s, _, rfl⟩ := List.mem_map.1 (hp.mem_iff.1 hp')
          rfl
        refine List.Pairwise.imp_of_mem ?_ (h1.and h2)
        rintro a b ha' hb' ⟨hle, hne⟩
        have ea := h3 a ha'
        have eb := h3 b hb'
        simp only [numLe, Bool.or_eq_true, Bool.and_eq_true, decide_eq_true_eq, strLe_iff] at hle
        unfold numLt
        rw [← ea, ← eb]
        rcases hle with h | ⟨h, h'⟩
        · exact Or.inl h
        · refine Or.inr ⟨h, lt_of_le_of_ne _ _ h' (fun e => hne ?_)⟩
          exact Prod.ext h e
    · rw [sortNumeric_of_not_all _ ha]
      simp only
      exact ⟨fun x => (mem_sortStrs _ x).trans (hm x), fun _ h => absurd (hall.2 h) ha,
        fun _ => sortStrs_strict _ hd⟩

end GffProofs.SortL
