/-
  Small facts about `GffModel.Iter` shared by the C13 and C14 proofs.
-/
import GffModel.IterMore

namespace GffProofs.IterAux
open GffModel GffModel.Iter

theorem applyTransform_none (d : Dialect) (fs : List Feature) :
    applyTransform d none fs = fs.map (withDialect d) := by
  unfold applyTransform
  induction fs with
  | nil => rfl
  | cons f fs ih => simp only [List.filterMap_cons, List.map_cons, ih]; rfl

theorem applyTransform_some (d : Dialect) (t : Feature → Option Feature) (fs : List Feature) :
    applyTransform d (some t) fs = fs.filterMap (fun f => t (withDialect d f)) := by
  unfold applyTransform
  rfl

/-- what a successful `runFile` consists of -/
theorem runFile_ok {lines : List Str} {cl : Nat} {sup : Option Dialect} {tr : Option (Feature → Option Feature)}
    {d : Dialect} {fs : List Feature} {dirs : List Str} (h : runFile lines cl sup tr = .ok (d, fs, dirs)) :
    (match sup with | some d' => d = d' | none => fileDialect lines cl = .ok d) ∧
    fileIterate lines d tr = .ok fs ∧ dirs = directives lines := by
  unfold runFile at h
  cases sup with
  | some d' =>
    simp only [bind, Except.bind, pure, Except.pure] at h
    cases hfi : fileIterate lines d' tr with
    | error e => rw [hfi] at h; simp at h
    | ok v =>
      rw [hfi] at h
      simp only [Except.ok.injEq, Prod.mk.injEq] at h
      obtain ⟨rfl, rfl, rfl⟩ := h
      exact ⟨rfl, hfi, rfl⟩
  | none =>
    simp only [bind, Except.bind, pure, Except.pure] at h
    cases hd : fileDialect lines cl with
    | error e => rw [hd] at h; simp at h
    | ok d' =>
      rw [hd] at h
      simp only at h
      cases hfi : fileIterate lines d' tr with
      | error e => rw [hfi] at h; simp at h
      | ok v =>
        rw [hfi] at h
        simp only [Except.ok.injEq, Prod.mk.injEq] at h
        obtain ⟨rfl, rfl, rfl⟩ := h
        exact ⟨rfl, hfi, rfl⟩

/-- and conversely -/
theorem runFile_of {lines : List Str} {cl : Nat} {sup : Option Dialect} {tr : Option (Feature → Option Feature)}
    {d : Dialect} {fs : List Feature}
    (hd : match sup with | some d' => d = d' | none => fileDialect lines cl = .ok d)
    (hf : fileIterate lines d tr = .ok fs) : runFile lines cl sup tr = .ok (d, fs, directives lines) := by
  unfold runFile
  cases sup with
  | some d' =>
    simp only at hd
    subst hd
    simp only [bind, Except.bind, pure, Except.pure, hf]
  | none =>
    simp only at hd
    simp only [bind, Except.bind, pure, Except.pure, hd, hf]

section
variable {ε α β : Type}

theorem mapM_length (f : α → Except ε β) : ∀ (xs : List α) (ys : List β), xs.mapM f = .ok ys → ys.length = xs.length := by
  intro xs
  induction xs with
  | nil => intro ys h; simp [pure, Except.pure] at h; simp [← h]
  | cons x xs ih =>
    intro ys h
    simp only [List.mapM_cons, bind, Except.bind] at h
    split at h
    · exact absurd h (by simp)
    · split at h
      · exact absurd h (by simp)
      · rename_i ys' hys
        simp only [pure, Except.pure, Except.ok.injEq] at h
        rw [← h, List.length_cons, List.length_cons, ih ys' hys]

/-- a successful `mapM` over a list restricts to a successful `mapM` over every prefix -/
theorem mapM_take (f : α → Except ε β) (n : Nat) : ∀ (xs : List α) (ys : List β), xs.mapM f = .ok ys →
    (xs.take n).mapM f = .ok (ys.take n) := by
  induction n with
  | zero => intro xs ys _; simp [pure, Except.pure]
  | succ n ih =>
    intro xs ys h
    cases xs with
    | nil => simp [pure, Except.pure] at h; subst h; simp [pure, Except.pure]
    | cons x xs =>
      simp only [List.mapM_cons, bind, Except.bind] at h
      split at h
      · exact absurd h (by simp)
      · rename_i y hy
        split at h
        · exact absurd h (by simp)
        · rename_i ys' hys
          simp only [pure, Except.pure, Except.ok.injEq] at h
          subst h
          simp only [List.take_succ_cons, List.mapM_cons, bind, Except.bind, hy, ih xs ys' hys, pure, Except.pure]

/-- `mapM` of two functions that agree up to a post-processing `g` on every element -/
theorem mapM_congr_map (f f' : α → Except ε β) (g : β → β) : ∀ (xs : List α) (ys : List β),
    (∀ x ∈ xs, ∀ y, f x = .ok y → ∃ y', f' x = .ok y' ∧ g y' = g y) → xs.mapM f = .ok ys →
    ∃ ys', xs.mapM f' = .ok ys' ∧ ys'.map g = ys.map g := by
  intro xs
  induction xs with
  | nil => intro ys _ h; simp [pure, Except.pure] at h; exact ⟨[], by simp [pure, Except.pure], by simp [← h]⟩
  | cons x xs ih =>
    intro ys hx h
    simp only [List.mapM_cons, bind, Except.bind] at h
    split at h
    · exact absurd h (by simp)
    · rename_i y hy
      split at h
      · exact absurd h (by simp)
      · rename_i ys0 hys
        simp only [pure, Except.pure, Except.ok.injEq] at h
        subst h
        obtain ⟨y', hy', hg⟩ := hx x (by simp) y hy
        obtain ⟨ys', hys', hgs⟩ := ih ys0 (fun z hz => hx z (by simp [hz])) hys
        exact ⟨y' :: ys', by simp [List.mapM_cons, bind, Except.bind, hy', hys', pure, Except.pure],
          by simp [hg, hgs]⟩
end

/-! ### parsed features carry the dialect they were parsed with -/

theorem mk'_dialect (cols : List Str) (a : Attrs) (extra : List Str) (d : Dialect) (k : Bool) (f : Feature)
    (h : Feature.mk' cols a extra d k = .ok f) : f.dialect = d := by
  unfold Feature.mk' at h
  simp only [bind, Except.bind, pure, Except.pure] at h
  cases h3 : Feature.parseCoord ((cols[3]?).getD ['.']) with
  | error e => rw [h3] at h; simp at h
  | ok start =>
    rw [h3] at h
    simp only at h
    cases h4 : Feature.parseCoord ((cols[4]?).getD ['.']) with
    | error e => rw [h4] at h; simp at h
    | ok stop =>
      rw [h4] at h
      simp only [Except.ok.injEq] at h
      rw [← h]

theorem featureFromLine_dialect (l : Str) (d : Dialect) (k : Bool) (f : Feature)
    (h : featureFromLine l (some d) true k = .ok f) : f.dialect = d := by
  unfold featureFromLine at h
  simp only [if_true, bind, Except.bind, pure, Except.pure] at h
  split at h
  · exact absurd h (by simp)
  · simp only [Option.getD_some] at h
    exact mk'_dialect _ _ _ _ _ _ h

theorem withDialect_self (d : Dialect) (f : Feature) (h : f.dialect = d) : withDialect d f = f := by
  cases f; simp only [withDialect] at *; subst h; rfl

theorem mapM_all {ε α β : Type} (f : α → Except ε β) (P : β → Prop) : ∀ (xs : List α) (ys : List β),
    xs.mapM f = .ok ys → (∀ x y, f x = .ok y → P y) → ∀ y ∈ ys, P y := by
  intro xs
  induction xs with
  | nil => intro ys h _ y hy; simp [pure, Except.pure] at h; subst h; simp at hy
  | cons x xs ih =>
    intro ys h hP y hy
    simp only [List.mapM_cons, bind, Except.bind] at h
    split at h
    · exact absurd h (by simp)
    · rename_i y0 hy0
      split at h
      · exact absurd h (by simp)
      · rename_i ys' hys
        simp only [pure, Except.pure, Except.ok.injEq] at h
        subst h
        rcases List.mem_cons.mp hy with rfl | hy
        · exact hP x _ hy0
        · exact ih ys' hys hP y hy

/-! ### association lists (`List.lookup`) -/

section
variable {α β : Type} [BEq α] [LawfulBEq α] [DecidableEq α]

theorem lookup_map_modify (r : List (α × β)) (k k' : α) (g : β → β) :
    List.lookup k' (r.map (fun p => if p.1 = k then (p.1, g p.2) else p)) =
      (List.lookup k' r).map (fun c => if k' = k then g c else c) := by
  induction r with
  | nil => rfl
  | cons p r ih =>
    obtain ⟨q, c⟩ := p
    simp only [List.map_cons, List.lookup_cons]
    by_cases hq : q = k
    · subst hq
      simp only [if_true, List.lookup_cons]
      by_cases hu : k' = q
      · subst hu; simp
      · have : (k' == q) = false := by simpa using hu
        simp only [this, ih]
    · simp only [hq, if_false, List.lookup_cons]
      by_cases hu : k' = q
      · subst hu
        simp [hq]
      · have : (k' == q) = false := by simpa using hu
        simp only [this, ih]

omit [DecidableEq α] in
theorem lookup_of_mem_keys (r : List (α × β)) (k : α) (h : k ∈ r.map (·.1)) : ∃ c, List.lookup k r = some c := by
  induction r with
  | nil => simp at h
  | cons p r ih =>
    obtain ⟨q, c⟩ := p
    simp only [List.lookup_cons]
    by_cases hq : k = q
    · subst hq; simp
    · have : (k == q) = false := by simpa using hq
      simp only [this]
      apply ih
      simp only [List.map_cons, List.mem_cons] at h
      rcases h with h | h
      · exact absurd h hq
      · exact h

omit [DecidableEq α] in
theorem lookup_none_of_not_mem_keys (r : List (α × β)) (k : α) (h : k ∉ r.map (·.1)) : List.lookup k r = none := by
  induction r with
  | nil => rfl
  | cons p r ih =>
    obtain ⟨q, c⟩ := p
    simp only [List.map_cons, List.mem_cons, not_or] at h
    have : (k == q) = false := by simpa using h.1
    simp only [List.lookup_cons, this]
    exact ih h.2

theorem lookup_append_single (r : List (α × β)) (k u : α) (b : β) :
    List.lookup u (r ++ [(k, b)]) =
      match List.lookup u r with | some n => some n | none => if u = k then some b else none := by
  induction r with
  | nil =>
    by_cases hu : u = k
    · subst hu; simp [List.lookup]
    · have : (u == k) = false := by simpa using hu
      simp [List.lookup, this, hu]
  | cons p r ih =>
    obtain ⟨q, n⟩ := p
    simp only [List.cons_append, List.lookup_cons]
    by_cases hu : u = q
    · subst hu; simp
    · have : (u == q) = false := by simpa using hu
      simp only [this, ih]
end


end GffProofs.IterAux
