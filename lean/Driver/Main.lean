import GffModel

open GffModel

partial def loop (hin : IO.FS.Stream) (hout : IO.FS.Stream) : IO Unit := do
  let line ← hin.getLine
  if line.isEmpty then
    hout.flush
    return ()
  let ws := Proto.words (line.trimAscii.toString)
  match ProtoAll.step ws with
  | some out => hout.putStrLn out
  | none => hout.putStrLn "bad-op"
  loop hin hout

def main : IO Unit := do
  let hin ← IO.getStdin
  let hout ← IO.getStdout
  loop hin hout
