import GffModel

open GffModel

partial def loop (hin : IO.FS.Stream) (hout : IO.FS.Stream) (w : ProtoDb.World) : IO Unit := do
  let line ← hin.getLine
  if line.isEmpty then
    hout.flush
    return ()
  let ws := Proto.words (line.trimAscii.toString)
  match ProtoDb.step w ws with
  | some (w', out) =>
    hout.putStrLn out
    loop hin hout w'
  | none =>
    match ProtoAll.step ws with
    | some out => hout.putStrLn out
    | none => hout.putStrLn "bad-op"
    loop hin hout w

def main : IO Unit := do
  let hin ← IO.getStdin
  let hout ← IO.getStdout
  loop hin hout {}
