import GffModel.Str
import GffModel.Bins
import GffModel.Proto
