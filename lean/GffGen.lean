import GffGen.Bins
import GffGen.Crit
