import GffGen.Bins
