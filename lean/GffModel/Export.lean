/-
  GffModel.Export — coordinate conventions of the exports: `FeatureDB.bed12` (interface.py L1828-1986),
  `convert.to_bed12` (convert.py L6-42), `Feature.sequence` (feature.py L365-394) over an abstract FASTA
  map (pyfaidx is modelled: 0-based half-open slicing, reverse complement on the IUPAC nucleotide codes
  `ACGTNRYKMSWBDHVX` in both cases; pyfaidx raises ValueError on any other character, which is outside the model).
-/
import GffModel.Interface

namespace GffModel
namespace Export
open Interface

def tabJoin (l : List Str) : Str := Str.join ['\t'] l
def commaJoin (l : List Str) : Str := Str.join [','] l

/-- `len(feature)` on a row -/
def rowLen (r : Row) : Py Int :=
  match r.start, r.stop with
  | some s, some e => .ok (e - s + 1)
  | _, _ => .error .type

/-- children of `id` restricted to featuretypes `fts`, ordered by start (ties: table order) -/
def kids (s : Session) (id : Str) (fts : List Str) : List Row :=
  runRelation s true id none { featuretype := fts, orderBy := [.start] }

def getInt (o : Option Int) : Py Int := match o with | some i => .ok i | none => .error .type

/-- `FeatureDB.bed12(feature, block_featuretype, thick_featuretype, thin_featuretype, name_field, color)`;
an empty featuretype list is Python-falsy (`None` / `[]`).  After the repair of D8 the feature is looked
up before the "no block children" fallback, so an id and a Feature argument behave alike. -/
def bed12 (s : Session) (id : Str) (block thick thin : List Str) (nameField : Str) (color : Option Str) :
    Py Str := do
  if !thick.isEmpty && !thin.isEmpty then throw .value
  let exons := kids s id block
  let f ← match s.db.getRow? id with | some r => pure r | none => throw PyErr.featureNotFound
  let exons := if exons.isEmpty then [f] else exons
  let firstRow ← match exons.head? with | some r => pure r | none => throw PyErr.index
  let lastRow ← match exons.getLast? with | some r => pure r | none => throw PyErr.index
  -- `first != feature.start` compares possibly-None ints: None == None is fine, no TypeError
  if firstRow.start ≠ f.start then throw .value
  if lastRow.stop ≠ f.stop then throw .value
  let color := (color.getD "0,0,0".toList).filter (· ≠ ' ')
  let color := Str.strip color
  let fstart ← getInt f.start                       -- `feature.start - 1`
  let chromStart := fstart - 1
  let chromEnd := f.stop
  let name ← match f.attrs.get? nameField with
    | some (v :: _) => pure v
    | some [] => throw PyErr.index
    | none => pure ['.']
  let score := if f.score = ['.'] then ['0'] else f.score
  let sizes ← exons.mapM rowLen
  let starts ← exons.mapM (fun r => do pure ((← getInt r.start) - 1 - chromStart))
  -- thick / thin
  let thickPair : Option (Option Int × Option Int) ←
    if !thick.isEmpty then
      let t := kids s id thick
      match t.head?, t.getLast? with
      | some a, some b => do pure (some (some ((← getInt a.start) - 1), b.stop))
      | _, _ => pure (some (f.start, f.stop))
    else if !thin.isEmpty then
      let t := kids s id thin
      match t.head?, t.getLast? with
      | some a, some b => do pure (some (a.stop, some ((← getInt b.start) - 1)))
      | _, _ => pure (some (f.start, f.stop))
    else pure none
  let lastStart ← match starts.getLast? with | some x => pure x | none => throw PyErr.index
  let lastSize ← match sizes.getLast? with | some x => pure x | none => throw PyErr.index
  if some (chromStart + lastStart + lastSize) ≠ chromEnd then throw .assertion
  match thickPair with
  | none => throw .unbound                            -- `thickStart` is never assigned
  | some (ts, te) =>
    let optStr (o : Option Int) : Str := match o with | some i => Str.intToStr i | none => "None".toList
    pure (tabJoin [f.seqid, Str.intToStr chromStart, optStr chromEnd, name, score, f.strand, optStr ts, optStr te,
      color, Str.natToStr exons.length, commaJoin (sizes.map Str.intToStr), commaJoin (starts.map Str.intToStr)])

/-- `convert.to_bed12(f, db, child_type, name_field)` (with a trailing newline) -/
def toBed12 (s : Session) (id : Str) (childType : Str) (nameField : Str) : Py Str := do
  let f ← match s.db.getRow? id with | some r => pure r | none => throw PyErr.featureNotFound
  let children := kids s id [childType]
  let sizes ← children.mapM rowLen
  let fstart ← getInt f.start
  let starts ← children.mapM (fun r => do pure ((← getInt r.start) - fstart))
  let name ← match f.attrs.get? nameField with
    | some (v :: _) => pure v
    | some [] => throw PyErr.index
    | none => pure ['.']
  let optStr (o : Option Int) : Str := match o with | some i => Str.intToStr i | none => "None".toList
  pure (tabJoin [f.seqid, Str.intToStr (fstart - 1), optStr f.stop, name, f.score, f.strand, Str.intToStr fstart,
    optStr f.stop, "0,0,0".toList, Str.natToStr children.length, commaJoin (sizes.map Str.intToStr),
    commaJoin (starts.map Str.intToStr)] ++ ['\n'])

/-- complement on the modelled alphabet (IUPAC codes, both cases); other characters are outside the model (kept
unchanged here; pyfaidx rejects them) -/
def complement (c : Char) : Char :=
  match c with
  | 'A' => 'T' | 'C' => 'G' | 'G' => 'C' | 'T' => 'A' | 'N' => 'N'
  | 'a' => 't' | 'c' => 'g' | 'g' => 'c' | 't' => 'a' | 'n' => 'n'
  -- IUPAC ambiguity codes (pyfaidx's table): R↔Y, K↔M, B↔V, D↔H; S, W, N, X are their own complement
  | 'R' => 'Y' | 'Y' => 'R' | 'K' => 'M' | 'M' => 'K' | 'B' => 'V' | 'V' => 'B' | 'D' => 'H' | 'H' => 'D'
  | 'r' => 'y' | 'y' => 'r' | 'k' => 'm' | 'm' => 'k' | 'b' => 'v' | 'v' => 'b' | 'd' => 'h' | 'h' => 'd'
  | x => x

/-- Python slice `seq[a:b]` for `0 ≤ a` -/
def slice (seq : Str) (a b : Int) : Str :=
  if b ≤ a then [] else (seq.drop a.toNat).take (b - a).toNat

/-- `feature.sequence(fasta, use_strand)`: bases `start-1 … stop` (0-based half-open) of the named
sequence, reverse-complemented for minus-strand features when `use_strand`. -/
def sequence (fasta : Dict Str) (seqid : Str) (start stop : Option Int) (strand : Str) (useStrand : Bool) : Py Str := do
  let seq ← match fasta.get? seqid with | some x => pure x | none => throw PyErr.key
  let s ← getInt start
  let e ← getInt stop
  let sub := slice seq (s - 1) e
  pure (if useStrand && strand = ['-'] then (sub.reverse.map complement) else sub)

end Export
end GffModel
