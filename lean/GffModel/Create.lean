/-
  GffModel.Create — `create.py`: `_id_handler` (L165-228), `_increment_featuretype_autoid`,
  `_do_merge` (L235-376) with `_candidate_merges` / `_add_duplicate`, the two `_populate_from_lines`
  (GFF L592-673, GTF L747-860), the two `_update_relations` (GFF L675-734, GTF L862-1092),
  `_finalize` (L470-533) and the routing of `create_db` (L1348-1419).

  The importer state is `(Db, counters)`; the counters are the `_autoincrements` dict, which
  `FeatureDB.update` shares with the open `FeatureDB` (modelled in Interface.lean).
-/
import GffModel.Db

namespace GffModel
namespace Create

/-! ### id_spec -/

inductive KeySpec
  | attr (k : Str)                          -- a string: attribute name, or `:field:`
  | call (f : Feature → Option Str)         -- a callable; `none`/`""` is falsy

inductive IdSpec
  | keys (ks : List KeySpec)                -- string / callable (singleton) or any iterable
  | perType (m : Dict (List KeySpec))       -- dict featuretype ↦ string | iterable

/-- `_increment_featuretype_autoid(key)` -/
def incr (auto : Dict Nat) (key : Str) : Str × Dict Nat :=
  let n := (auto.get? key).getD 0 + 1
  (key ++ ['_'] ++ Str.natToStr n, Dict.set auto key n)

/-- `getattr(f, name)` for the column names (`:seqid:` …).  Python returns an `int` for start/end,
which sqlite's TEXT affinity stores as its decimal text; `None` would become a NULL key (outside the
domain: `.other`). -/
def fieldOf (f : Feature) (name : Str) : Py Str :=
  if name = "seqid".toList ∨ name = "chrom".toList then .ok f.seqid
  else if name = "source".toList then .ok f.source
  else if name = "featuretype".toList then .ok f.ftype
  else if name = "score".toList then .ok f.score
  else if name = "strand".toList then .ok f.strand
  else if name = "frame".toList then .ok f.frame
  else if name = "start".toList then (match f.start with | some i => .ok (Str.intToStr i) | none => .error .other)
  else if name = "end".toList ∨ name = "stop".toList then
    (match f.stop with | some i => .ok (Str.intToStr i) | none => .error .other)
  else .error .attribute

def isFieldSpec (k : Str) : Bool :=
  k.length > 3 && k.head? == some ':' && k.getLast? == some ':'

def autoPrefix : Str := "autoincrement:".toList

/-- the `for k in id_key` loop: `some (id, counters)` on `return`, `none` when it falls through -/
def tryKeys (auto : Dict Nat) (f : Feature) : List KeySpec → Py (Option (Str × Dict Nat))
  | [] => .ok none
  | .call g :: rest =>
    match g f with
    | some id =>
      if id.isEmpty then tryKeys auto f rest
      else if Str.startsWith id autoPrefix then .ok (some (incr auto (id.drop 14)))
      else .ok (some (id, auto))
    | none => tryKeys auto f rest
  | .attr k :: rest =>
    if isFieldSpec k then (fieldOf f ((k.drop 1).dropLast)).map (fun v => some (v, auto))
    else
      match f.attrs.get? k with
      | some vs =>
        if vs.length > 1 then .error .value          -- "The ID field … has more than one value"
        else match vs with
          | v :: _ => .ok (some (v, auto))
          | [] => tryKeys auto f rest                 -- IndexError swallowed
      | none => tryKeys auto f rest                   -- KeyError swallowed

/-- `_id_handler(f)` -/
def idHandler (spec : IdSpec) (auto : Dict Nat) (f : Feature) : Py (Str × Dict Nat) := do
  let ks? : Option (List KeySpec) :=
    match spec with
    | .keys ks => some ks
    | .perType m => m.get? f.ftype
  match ks? with
  | none => pure (incr auto f.ftype)                    -- KeyError → default autoincrement
  | some ks =>
    match ← tryKeys auto f ks with
    | some r => pure r
    | none => pure (incr auto f.ftype)

/-! ### merge strategies -/

inductive Strategy | error | warning | replace | createUnique | merge
  deriving DecidableEq, Repr

structure Cfg where
  idSpec : IdSpec
  strategy : Strategy := .error
  forceMergeFields : List Str := []
  disableGenes : Bool := false
  disableTranscripts : Bool := false
  transcriptKey : Str := "transcript_id".toList
  geneKey : Str := "gene_id".toList
  subfeature : Str := "exon".toList
  dialect : Dialect := Dialect.default          -- `self.iterator.dialect`

/-- the column values compared by the `merge` strategy (`constants._gffkeys[:-1]`), as printable text -/
def colText (f : Feature) (k : Str) : Str :=
  if k = "seqid".toList then f.seqid else if k = "source".toList then f.source
  else if k = "featuretype".toList then f.ftype
  else if k = "start".toList then Feature.coordStr f.start
  else if k = "end".toList then Feature.coordStr f.stop
  else if k = "score".toList then f.score else if k = "strand".toList then f.strand
  else if k = "frame".toList then f.frame else []

def gffCols : List Str :=
  ["seqid", "source", "featuretype", "start", "end", "score", "strand", "frame"].map String.toList

def setCol (f : Feature) (k v : Str) : Feature :=
  if k = "seqid".toList then { f with seqid := v } else if k = "source".toList then { f with source := v }
  else if k = "featuretype".toList then { f with ftype := v }
  else if k = "score".toList then { f with score := v } else if k = "strand".toList then { f with strand := v }
  else if k = "frame".toList then { f with frame := v } else f

/-- `_candidate_merges(f)`: the feature stored under `f.id` plus those recorded in `duplicates` for it;
`list(set(...))` removes candidates that print alike (the order of a Python set is arbitrary; the model
keeps first-seen order) -/
def candidates (cfg : Cfg) (db : Db) (id : Str) : List Feature :=
  let own := (db.getRow? id).toList
  let dups := db.duplicates.filterMap (fun (orig, new) => if orig = id then db.getRow? new else none)
  let all := (own ++ dups).map (fun r => r.toFeature cfg.dialect)
  all.foldl (fun acc c =>
    if acc.any (fun a => (a.print).toOption == (c.print).toOption) then acc else acc ++ [c]) []

/-- set union of attribute values: `v = merged.setdefault(k, []); v.extend(existing[k])` then
`list(set(v))` (model order: first seen; compared as a set) -/
def unionAttrs (merged : Attrs) (ex : Attrs) : Attrs :=
  ex.foldl (fun m (k, vs) => Dict.set m k ((m.get? k).getD [] ++ vs)) merged

/-- `_do_merge(f, strategy)`; `f.id` is set.  Result: (feature to file, final strategy, db, counters) -/
def doMerge (cfg : Cfg) (db : Db) (auto : Dict Nat) (f : Feature) (id : Str) (strategy : Strategy) :
    Py (Option Feature × Strategy × Db × Dict Nat) :=
  match strategy with
  | .error => .error .value
  | .warning => .ok (none, .warning, db, auto)
  | .replace => .ok (some f, .replace, db, auto)
  | .createUnique =>
    let (nid, auto) := incr auto id
    .ok (some { f with id := some nid }, .createUnique, db, auto)
  | .merge =>
    let check := gffCols.filter (fun k => !cfg.forceMergeFields.contains k)
    let toMerge := (candidates cfg db id).filter (fun ex => check.all (fun k => colText ex k == colText f k))
    match toMerge.getLast? with
    | none =>
      -- no candidate agrees on the other columns: file under a fresh id and remember it
      let (nid, auto) := incr auto id
      .ok (some { f with id := some nid }, .createUnique,
           { db with duplicates := db.duplicates ++ [(id, nid)] }, auto)
    | some existing =>
      let merged := toMerge.foldl (fun m ex => unionAttrs m ex.attrs) f.attrs
      let merged : Attrs := merged.map (fun (k, v) => (k, dedup v))
      let existing := { existing with attrs := merged }
      let existing := cfg.forceMergeFields.foldl (fun ex k =>
        let vals := dedup ((colText f k :: toMerge.map (fun e => colText e k)).flatMap (Str.split [',']))
        setCol ex k (Str.join [','] (sortStrs vals))) existing
      .ok (some existing, .merge, db, auto)

/-- what both `_populate_from_lines` do with one feature after `_id_handler`: insert, or resolve the
collision.  Returns the db, the counters and the id the feature was filed under (`none` = ignored). -/
def fileFeature (cfg : Cfg) (db : Db) (auto : Dict Nat) (f : Feature) (id : Str) :
    Py (Db × Dict Nat × Option Str) := do
  let f := { f with id := some id }
  let row ← Row.ofFeature f
  match db.insert row with
  | .ok db => pure (db, auto, some id)
  | .error _ =>
    let (fixed, final, db, auto) ← doMerge cfg db auto f id cfg.strategy
    match final, fixed with
    | .merge, some fx =>
      let fid := fx.id.getD id
      let db := db.modifyRow fid (fun r => { r with attrs := fx.attrs })
      let db := cfg.forceMergeFields.foldl (fun db k =>
        db.modifyRow fid (fun r =>
          if k = "seqid".toList then { r with seqid := fx.seqid } else if k = "source".toList then { r with source := fx.source }
          else if k = "featuretype".toList then { r with ftype := fx.ftype }
          else if k = "score".toList then { r with score := fx.score }
          else if k = "strand".toList then { r with strand := fx.strand }
          else if k = "frame".toList then { r with frame := fx.frame } else r)) db
      pure (db, auto, some fid)
    | .replace, some fx =>
      let row ← Row.ofFeature fx
      pure (db.replaceRow id row, auto, some id)
    | .createUnique, some fx =>
      let row ← Row.ofFeature fx
      let db ← db.insert row
      pure (db, auto, fx.id)
    | _, _ => pure (db, auto, none)               -- warning: the line is ignored

def parentKey : Str := "Parent".toList

/-- `_GFFDBCreator._populate_from_lines` for one feature -/
def gffStep (cfg : Cfg) (st : Db × Dict Nat) (f : Feature) : Py (Db × Dict Nat) := do
  let (db, auto) := st
  let (id, auto) ← idHandler cfg.idSpec auto f
  let (db, auto, filed) ← fileFeature cfg db auto f id
  -- relations are attached to the id the feature was filed under; an ignored line adds none
  let db := match filed with
    | some fid => ((f.attrs.get? parentKey).getD []).foldl (fun db p => db.insertRelIgnore ⟨p, fid, 1⟩) db
    | none => db
  pure (db, auto)

def populateGff (cfg : Cfg) (db : Db) (auto : Dict Nat) (fs : List Feature) : Py (Db × Dict Nat) :=
  if fs.isEmpty then .error .emptyInput else fs.foldlM (gffStep cfg) (db, auto)

/-- `_GFFDBCreator._update_relations`: level 2 = composition of two level-1 edges, for every stored id -/
def updateRelationsGff (db : Db) : Db :=
  db.features.foldl (fun acc parent =>
    let kids := (db.relations.filter (fun r => r.parent = parent.id ∧ r.level = 1)).map (·.child)
    let grand := (db.relations.filter (fun r => kids.contains r.parent ∧ r.level = 1)).map (·.child)
    grand.foldl (fun acc g => acc.insertRelIgnore ⟨parent.id, g, 2⟩) acc) db

/-- `_GTFDBCreator._populate_from_lines` for one feature -/
def gtfStep (cfg : Cfg) (st : Db × Dict Nat) (f : Feature) : Py (Db × Dict Nat) := do
  let (db, auto) := st
  let (id, auto) ← idHandler cfg.idSpec auto f
  let (db, auto, filed) ← fileFeature cfg db auto f id
  let parent : Option Str := match f.attrs.get? cfg.transcriptKey with
    | some (t :: _) => some t
    | _ => none
  let grand : Option Str := match f.attrs.get? cfg.geneKey with
    | some (g :: _) => some g
    | _ => none
  let db := match filed with
    | none => db
    | some fid =>
      let db := match parent with
        | some p => if p ≠ fid then db.insertRelIgnore ⟨p, fid, 1⟩ else db
        | none => db
      match grand with
      | some g =>
        let db := if fid ≠ g ∧ parent ≠ some fid then db.insertRelIgnore ⟨g, fid, 2⟩ else db
        match parent with
        | some p => if p ≠ g then db.insertRelIgnore ⟨g, p, 1⟩ else db
        | none => db
      | none => db
  pure (db, auto)

def populateGtf (cfg : Cfg) (db : Db) (auto : Dict Nat) (fs : List Feature) : Py (Db × Dict Nat) :=
  if fs.isEmpty then .error .value else fs.foldlM (gtfStep cfg) (db, auto)

/-- `SELECT MIN(start), MAX(end), strand, seqid FROM features JOIN relations ON features.id =
relations.child WHERE parent = ? AND featuretype == ?`.  The bare columns `strand, seqid` come from ONE of
the joined rows; which one only matters when the subfeatures of a transcript or gene disagree on strand or
seqid (outside C03's domain).  What sqlite 3.40 does, established by experiment and validated by the
correspondence: it scans the relations PRIMARY KEY index, i.e. the rows in order of child id, and keeps the
first row that attains `MAX(end)`; when every `end` is NULL, the last row scanned. -/
def extent (db : Db) (sub : Str) (parent : Str) : Option (Option Int × Option Int × Str × Str) :=
  let rows := (db.relations.filter (·.parent = parent)).filterMap (fun r =>
    match db.getRow? r.child with
    | some row => if row.ftype = sub then some row else none
    | none => none)
  match rows with
  | [] => none
  | r0 :: _ =>
    let starts := rows.filterMap (·.start)
    let stops := rows.filterMap (·.stop)
    let mx := stops.foldl (fun m x => match m with | none => some x | some y => some (max x y)) none
    let scanned := rows.mergeSort (fun (a b : Row) => strLe a.id b.id)
    let pick := match mx with
      | some m => (scanned.find? (fun (r : Row) => r.stop == some m)).getD r0
      | none => scanned.getLast?.getD r0
    some (starts.foldl (fun m x => match m with | none => some x | some y => some (min x y)) none,
          mx, pick.strand, pick.seqid)

/-- one derived feature as `derived_feature_generator` rebuilds it -/
def derivedFeature (ftype : Str) (ext : Option Int × Option Int × Str × Str) (attrs : Attrs) : Py Feature :=
  match ext with
  | (some s, some e, strand, seqid) =>
    .ok { seqid := seqid, source := "gffutils_derived".toList, ftype := ftype, start := some s, stop := some e,
          score := ['.'], strand := strand, frame := ['.'], attrs := attrs, extra := [],
          bin := Feature.calcBin (some s) (some e) }
  | _ => .error .type                 -- `bins.bins(None, None)`: TypeError (D17)

/-- `_GTFDBCreator._update_relations` -/
def updateRelationsGtf (cfg : Cfg) (db : Db) (auto : Dict Nat) : Py (Db × Dict Nat) := do
  if cfg.disableGenes && cfg.disableTranscripts then return (db, auto)
  -- transcripts = level-1 parents of stored subfeatures; pairs (transcript, gene) with (gene, transcript, 1)
  let firstlevel := dedup ((db.relations.filter (fun r =>
      decide (r.level = (1 : Int)) && (match db.getRow? r.child with
        | some row => decide (row.ftype = cfg.subfeature)
        | none => false))).map (·.parent))
  let pairs : List (Str × Str) := firstlevel.flatMap (fun t =>
      (dedup ((db.relations.filter (fun r => r.child = t ∧ r.level = 1)).map (·.parent))).map (fun g => (t, g)))
  let pairs := pairs.mergeSort (fun a b => strLe a.2 b.2)              -- ORDER BY relations.parent
  -- first pass: compute the derived features (written to the temp file)
  let (derived, _) ← pairs.foldlM (fun (acc : List Feature × Option Str) (tg : Str × Str) => do
      let (out, lastGene) := acc
      let (t, g) := tg
      let out ← if !cfg.disableTranscripts then do
          match extent db cfg.subfeature t with
          | some ext =>
            let f ← derivedFeature "transcript".toList ext [(cfg.transcriptKey, [t]), (cfg.geneKey, [g])]
            pure (out ++ [f])
          | none => Except.error PyErr.type
        else pure out
      if !cfg.disableGenes then
        if some g ≠ lastGene then
          match extent db cfg.subfeature g with
          | some ext =>
            let f ← derivedFeature "gene".toList ext [(cfg.geneKey, [g])]
            pure (out ++ [f], some g)
          | none => Except.error PyErr.type
        else pure (out, some g)
      else pure (out, lastGene)) (([] : List Feature), (none : Option Str))
  -- second pass: insert; a collision is always resolved with the `merge` strategy and only the
  -- attributes of the returned feature are written (`UPDATE … WHERE id = fixed.id`)
  derived.foldlM (fun (st : Db × Dict Nat) f => do
      let (db, auto) := st
      let (id, auto) ← idHandler cfg.idSpec auto f
      let f := { f with id := some id }
      let row ← Row.ofFeature f
      match db.insert row with
      | .ok db => pure (db, auto)
      | .error _ =>
        let (fixed, final, db, auto) ← doMerge cfg db auto f id .merge
        -- only a real merge writes (`if final_strategy == "merge"`); a derived feature that was merely
        -- renamed to `<id>_n` is not stored and must not touch the row that may carry that id
        match final, fixed with
        | .merge, some fx => pure (db.modifyRow (fx.id.getD id) (fun r => { r with attrs := fx.attrs }), auto)
        | _, _ => pure (db, auto)) (db, auto)

/-- `_finalize`: directives, one meta row, counters (`INSERT OR REPLACE`) -/
def finalize (db : Db) (dialect : Dialect) (directives : List Str) (auto : Dict Nat) : Db :=
  { db with directives := db.directives ++ directives, metaRows := db.metaRows ++ [dialect],
            autoinc := auto.foldl (fun a (k, n) => Dict.set a k n) db.autoinc }

/-- the default `id_spec` per importer -/
def defaultGffSpec : IdSpec := .keys [.attr "ID".toList]
def defaultGtfSpec : IdSpec :=
  .perType [("gene".toList, [.attr "gene_id".toList]), ("transcript".toList, [.attr "transcript_id".toList])]

/-- routing of `create_db`: GFF importer iff `force_gff ∨ fmt = gff3`; GTF importer iff `fmt = gtf` -/
inductive Importer | gff | gtf
  deriving DecidableEq, Repr

def route (forceGff : Bool) (d : Dialect) : Py Importer :=
  if forceGff ∨ d.fmt = Parser.gff3 then .ok .gff
  else if d.fmt = Parser.gtf then .ok .gtf
  else .error .unbound                   -- `cls` is never assigned

/-- `create_db` on an empty database: features already carry the iterator's dialect -/
def createDb (imp : Importer) (cfg : Cfg) (directives : List Str) (fs : List Feature) : Py Db := do
  match imp with
  | .gff =>
    let (db, auto) ← populateGff cfg {} [] fs
    pure (finalize (updateRelationsGff db) cfg.dialect directives auto)
  | .gtf =>
    let (db, auto) ← populateGtf cfg {} [] fs
    let (db, auto) ← updateRelationsGtf cfg db auto
    pure (finalize db cfg.dialect directives auto)

end Create
end GffModel
