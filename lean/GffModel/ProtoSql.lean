/-
  GffModel.ProtoSql — protocol commands of the SQL text layer (`GffModel/Sql.lean`); stateless: `sqleval`
  takes the tables inline.

  wire forms
    <arg>      `i<int>` | `t<hex>`                       <arglist>  `_` | `,`-joined <arg>
    <optstr>   `~` | <hex>
    <limit>    `~` | `s<hex>` | `t<arglist>`
    <ft>       `~` | `s<hex>` | `c<hexlist>`
    <orderby>  `~` | `s<hex>` | `t<hexlist>`
  commands (reply `ok <hex text> <arglist>` | `err <Name>`)
    sqltext mq <arglist> <other:optstr> <limit> <strand:optstr> <ft> <extra:optstr> <orderby> <reverse> <within>
    sqltext rel <children|parents> <id:hex> <level|~> <limit> <ft> <orderby> <reverse> <within>
    sqltext region <seqid:optstr> <start|~> <end|~> <strand:optstr> <ft: ~|hexlist> <within>
    sqltext count <ft:optstr> | sqltext ftypes | sqltext seqids
    sqlast  feat <limit> <strand> <ft> <orderby> <reverse> <within> | rel … | region … | count … | ftypes | seqids
            → the rendering of the AST and the arguments
    sqleval <rows> <rels> (feat|rel|region|count|ftypes|seqids) …
            → `ok <hex rendered text> <arglist> <result>`: ids (`encList`), a count, or the distinct values
    sqlset <ints ,-joined>   → `ok <ints>`: CPython's iteration order of the set built by these insertions
-/
import GffModel.Proto
import GffModel.ProtoDb
import GffModel.Sql

namespace GffModel
namespace ProtoSql
open Proto Sql Interface

def encArg : SqlArg → String
  | .int i => "i" ++ toString i
  | .text s => "t" ++ Str.encode s

def encArgs (l : List SqlArg) : String := if l.isEmpty then "_" else ",".intercalate (l.map encArg)

def decArg? (w : String) : Option SqlArg :=
  match w.toList with
  | 'i' :: rest => (parseIntW (String.ofList rest)).map SqlArg.int
  | 't' :: rest => (Str.decode? (String.ofList rest)).map SqlArg.text
  | _ => none

def decArgs? (w : String) : Option (List SqlArg) :=
  if w = "_" then some [] else (w.splitOn ",").mapM decArg?

def decOptStr? (w : String) : Option (Option Str) := ProtoDb.decStrOpt? w

def decLimit? (w : String) : Option Limit :=
  match w.toList with
  | ['~'] => some .none
  | 's' :: rest => (Str.decode? (String.ofList rest)).map Limit.str
  | 't' :: rest => (decArgs? (String.ofList rest)).map Limit.tuple
  | _ => none

def decFt? (w : String) : Option Ft :=
  match w.toList with
  | ['~'] => some .none
  | 's' :: rest => (Str.decode? (String.ofList rest)).map Ft.str
  | 'c' :: rest => (decList? (String.ofList rest)).map Ft.coll
  | _ => none

def decOrderBy? (w : String) : Option OrderBy :=
  match w.toList with
  | ['~'] => some .none
  | 's' :: rest => (Str.decode? (String.ofList rest)).map OrderBy.str
  | 't' :: rest => (decList? (String.ofList rest)).map OrderBy.tuple
  | _ => none

def encTA (r : Py (Str × List SqlArg)) : String :=
  match r with
  | .ok (t, a) => "ok " ++ Str.encode t ++ " " ++ encArgs a
  | .error e => encErr e

def decMq? : List String → Option MqArgs
  | [args, other, limit, strand, ft, extra, ob, rev, wi] => do
    pure { args := ← decArgs? args, other := ← decOptStr? other, limit := ← decLimit? limit,
           strand := ← decOptStr? strand, featuretype := ← decFt? ft, extra := ← decOptStr? extra,
           orderBy := ← decOrderBy? ob, reverse := ← parseBool rev, within := ← parseBool wi }
  | _ => none

def decRel? : List String → Option RelArgs
  | [kind, id, level, limit, ft, ob, rev, wi] => do
    let isC ← match kind with | "children" => some true | "parents" => some false | _ => none
    pure { isChildren := isC, id := ← Str.decode? id, level := ← ProtoDb.decOptInt? level, limit := ← decLimit? limit,
           featuretype := ← decFt? ft, orderBy := ← decOrderBy? ob, reverse := ← parseBool rev,
           within := ← parseBool wi }
  | _ => none

def decFeat? : List String → Option SArgs
  | [limit, strand, ft, ob, rev, wi] => do
    pure { limit := ← decLimit? limit, strand := ← decOptStr? strand, featuretype := ← decFt? ft,
           orderBy := ← decOrderBy? ob, reverse := ← parseBool rev, within := ← parseBool wi }
  | _ => none

def decRegion? : List String → Option RegionArgs
  | [sq, st, en, sd, ft, wi] => do
    pure { seqid := ← decOptStr? sq, start := ← ProtoDb.decOptInt? st, stop := ← ProtoDb.decOptInt? en,
           strand := ← decOptStr? sd, featuretype := ← (if ft = "~" then some none else (decList? ft).map some),
           within := ← parseBool wi }
  | _ => none

/-- the AST and arguments of a statement description -/
def decAst? : List String → Option (Py (SqlQuery × List SqlArg))
  | "feat" :: rest => (decFeat? rest).map makeQueryAst
  | "rel" :: rest => (decRel? rest).map relationAst
  | "region" :: rest => (decRegion? rest).map (fun a => .ok (regionAst a))
  | ["count", ft] => (decOptStr? ft).map (fun t => .ok (countQuery t))
  | ["ftypes"] => some (.ok (.distinctCol .featuretype, []))
  | ["seqids"] => some (.ok (.distinctCol .seqid, []))
  | _ => none

def encVal : SqlVal → String
  | .null => "~"
  | .int i => "i" ++ toString i
  | .text s => "t" ++ Str.encode s

def evalReply (q : SqlQuery) (args : List SqlArg) (db : Db) : String :=
  let head := "ok " ++ Str.encode (render q) ++ " " ++ encArgs args ++ " "
  match q with
  | .count b =>
    match evalCount b args db with
    | .ok n => head ++ toString n
    | .error e => encErr e
  | .distinctCol c =>
    match evalDistinctCol c db with
    | .ok vs => head ++ (if vs.isEmpty then "_" else ",".intercalate (vs.map encVal))
    | .error e => encErr e
  | q =>
    match eval q args db with
    | .ok rows => head ++ encList (rows.map (·.2.id))
    | .error e => encErr e

def handler : List String → Option String
  | "sqltext" :: "mq" :: rest => (decMq? rest).map (fun a => encTA (makeQuery a))
  | "sqltext" :: "rel" :: rest => (decRel? rest).map (fun a => encTA (relationText a))
  | "sqltext" :: "region" :: rest => (decRegion? rest).map (fun a => encTA (.ok (regionText a)))
  | ["sqltext", "count", ft] => (decOptStr? ft).map (fun t => encTA (.ok (countText t.isSome, (countQuery t).2)))
  | ["sqltext", "ftypes"] => some (encTA (.ok (distinctColText .featuretype, [])))
  | ["sqltext", "seqids"] => some (encTA (.ok (distinctColText .seqid, [])))
  | "sqlast" :: rest => (decAst? rest).map (fun r => encTA (r.map (fun p => (render p.1, p.2))))
  | "sqleval" :: rows :: rels :: rest => do
    let rows ← (ProtoDb.splitNonEmpty rows "/").mapM ProtoDb.decRow?
    let rels ← (ProtoDb.splitNonEmpty rels "/").mapM ProtoDb.decRel?
    let r ← decAst? rest
    let db : Db := { features := rows, relations := rels }
    match r with
    | .ok (q, args) => pure (evalReply q args db)
    | .error e => pure (encErr e)
  | ["sqlset", ints] => do
    let l ← (ints.splitOn ",").mapM parseIntW
    pure ("ok " ++ ",".intercalate ((pySetOrder l).map toString))
  | _ => none

end ProtoSql
end GffModel
