/-
  GffModel.Str — the Python `str` operations gffutils relies on, over `List Char`.

  Conventions (DESIGN.md §2.2): `str` is `List Char` (Unicode scalar values); every partial Python
  operation is partial here too.  Nothing in this file imports Mathlib, so it links into the native
  driver.
-/
namespace GffModel

abbrev Str := List Char

namespace Str

/-! ### `str.split(sep)` for a non-empty separator: leftmost, non-overlapping -/

/-- `acc` is the current piece, reversed. -/
def splitAux (sep : Str) : Str → Str → List Str
  | [], acc => [acc.reverse]
  | c :: cs, acc =>
    if sep.isPrefixOf (c :: cs) ∧ sep ≠ [] then
      acc.reverse :: splitAux sep ((c :: cs).drop sep.length) []
    else splitAux sep cs (c :: acc)
termination_by s _ => s.length
decreasing_by
  · simp only [List.length_drop, List.length_cons]
    have : sep.length > 0 := by
      rename_i h; cases sep with | nil => exact absurd rfl h.2 | cons _ _ => simp
    omega
  · simp

/-- Python `s.split(sep)` (`sep` non-empty; Python raises `ValueError` for an empty one and gffutils
never passes one). -/
def split (sep s : Str) : List Str := splitAux sep s []

/-- Python `sep.join(parts)`. -/
def join (sep : Str) : List Str → Str
  | [] => []
  | [p] => p
  | p :: q :: rest => p ++ sep ++ join sep (q :: rest)

/-- Single-character split, structurally recursive (used where the separator is one character: tab,
comma).  `splitChar c s = split [c] s` (proved in GffProofs). -/
def splitChar (c : Char) : Str → List Str
  | [] => [[]]
  | x :: xs =>
    if x = c then [] :: splitChar c xs
    else match splitChar c xs with
      | [] => [[x]]          -- unreachable: splitChar never returns []
      | p :: ps => (x :: p) :: ps

/-! ### `strip` family -/

def lstripChars (chars : Str) (s : Str) : Str := s.dropWhile (fun c => chars.contains c)
def rstripChars (chars : Str) (s : Str) : Str := (lstripChars chars s.reverse).reverse
def stripChars (chars : Str) (s : Str) : Str := rstripChars chars (lstripChars chars s)

/-- Python `str.isspace` for one character (Unicode White_Space plus the four separators
U+001C–U+001F, which Python also counts). -/
def isPySpace (c : Char) : Bool :=
  let n := c.toNat
  (0x09 ≤ n && n ≤ 0x0D) || (0x1C ≤ n && n ≤ 0x20) || n == 0x85 || n == 0xA0 || n == 0x1680 ||
  (0x2000 ≤ n && n ≤ 0x200A) || n == 0x2028 || n == 0x2029 || n == 0x202F || n == 0x205F || n == 0x3000

def lstrip (s : Str) : Str := s.dropWhile isPySpace
def rstrip (s : Str) : Str := (lstrip s.reverse).reverse
def strip (s : Str) : Str := rstrip (lstrip s)

/-- Python `s.split()` / `s.split(None, maxsplit)`: split on runs of whitespace, at most `maxsplit`
splits (`none` = unlimited); the remainder keeps its inner whitespace but loses leading whitespace;
trailing whitespace of the remainder is stripped only when the split count is not exhausted —
CPython keeps it when `maxsplit` is reached. -/
def splitWsAux : Nat → Option Nat → Str → List Str
  | 0, _, _ => []
  | fuel + 1, maxsplit, s =>
    let s := lstrip s
    if s.isEmpty then []
    else match maxsplit with
      | some 0 => [s]
      | _ =>
        let word := s.takeWhile (fun c => !isPySpace c)
        let rest := s.dropWhile (fun c => !isPySpace c)
        word :: splitWsAux fuel (maxsplit.map (· - 1)) rest

def splitWs (maxsplit : Option Nat) (s : Str) : List Str := splitWsAux (s.length + 1) maxsplit s

/-- Python `str.splitlines()` (keepends=False): separators `\n \r \r\n \v \f \x1c \x1d \x1e \x85
\u2028 \u2029`; no trailing empty line. -/
def isLineBreak (c : Char) : Bool :=
  let n := c.toNat
  n == 0x0A || n == 0x0D || n == 0x0B || n == 0x0C || n == 0x1C || n == 0x1D || n == 0x1E || n == 0x85 ||
  n == 0x2028 || n == 0x2029

def splitLinesAux : Str → Str → List Str
  | [], acc => if acc.isEmpty then [] else [acc.reverse]
  | '\r' :: '\n' :: cs, acc => acc.reverse :: splitLinesAux cs []
  | c :: cs, acc =>
    if isLineBreak c then acc.reverse :: splitLinesAux cs []
    else splitLinesAux cs (c :: acc)

def splitLines (s : Str) : List Str := splitLinesAux s []

/-! ### prefix / suffix, membership -/

def startsWith (s pre : Str) : Bool := pre.isPrefixOf s
def endsWith (s suf : Str) : Bool := suf.isSuffixOf s
def containsSub (s sub : Str) : Bool :=
  match sub with
  | [] => true
  | _ => (List.range (s.length + 1)).any (fun i => sub.isPrefixOf (s.drop i))

/-! ### `int()` on the grammar `[+-]?[0-9]+` (surrounding whitespace stripped, as Python does) -/

def digitVal? (c : Char) : Option Nat :=
  if '0' ≤ c ∧ c ≤ '9' then some (c.toNat - '0'.toNat) else none

def parseNat? (s : Str) : Option Nat :=
  if s.isEmpty then none
  else s.foldl (fun acc c => match acc, digitVal? c with
    | some a, some d => some (a * 10 + d)
    | _, _ => none) (some 0)

/-- digits with single underscores between digits (`int("1_000")`) -/
def parseNatUnderscore? (s : Str) : Option Nat :=
  let groups := splitChar '_' s
  if groups.any (·.isEmpty) then none else parseNat? (groups.flatten)

/-- Python `int(s)` for ASCII decimal text: surrounding whitespace stripped, optional sign, digits with
single underscores between them.  Non-ASCII digits are outside the modelled grammar and are rejected
here (the harness never generates them). -/
def parseInt? (s : Str) : Option Int :=
  match strip s with
  | '-' :: ds => (parseNatUnderscore? ds).map (fun n => - (n : Int))
  | '+' :: ds => (parseNatUnderscore? ds).map (fun n => (n : Int))
  | ds => (parseNatUnderscore? ds).map (fun n => (n : Int))

def natToStr (n : Nat) : Str := (toString n).toList
def intToStr (i : Int) : Str := (toString i).toList

/-! ### hex codec of the driver protocol: dot-joined code points, `-` for the empty string -/

def hexDigit (n : Nat) : Char :=
  if n < 10 then Char.ofNat ('0'.toNat + n) else Char.ofNat ('a'.toNat + (n - 10))

def natToHex (n : Nat) : Str :=
  if n < 16 then [hexDigit n] else
  let rec go (fuel n : Nat) (acc : Str) : Str :=
    match fuel with
    | 0 => acc
    | fuel + 1 => if n = 0 then acc else go fuel (n / 16) (hexDigit (n % 16) :: acc)
  go 16 n []

def hexVal? (c : Char) : Option Nat :=
  if '0' ≤ c ∧ c ≤ '9' then some (c.toNat - '0'.toNat)
  else if 'a' ≤ c ∧ c ≤ 'f' then some (c.toNat - 'a'.toNat + 10)
  else if 'A' ≤ c ∧ c ≤ 'F' then some (c.toNat - 'A'.toNat + 10)
  else none

def hexToNat? (s : Str) : Option Nat :=
  if s.isEmpty then none
  else s.foldl (fun acc c => match acc, hexVal? c with
    | some a, some d => some (a * 16 + d)
    | _, _ => none) (some 0)

def encode (s : Str) : String :=
  if s.isEmpty then "-" else
  String.ofList (join ['.'] (s.map (fun c => natToHex c.toNat)))

def decode? (w : String) : Option Str :=
  if w = "-" then some [] else
  (splitChar '.' w.toList).mapM (fun h => (hexToNat? h).map Char.ofNat)

end Str
end GffModel
