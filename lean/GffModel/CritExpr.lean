/-
  GffModel.CritExpr — a small expression language for the functions of `gffutils/merge_criteria.py` and its
  interpreter with PYTHON semantics (the translator tools/py2lean.py emits the source of every criterion as DATA of this
  type, GffGen/Crit.lean; GffProofs/Gen/CritEq.lean proves the hand-written criteria of GffModel.Merge equal to the
  interpretation of that data).

  Python semantics kept: a coordinate may be `None`; `None + 1` and `None <= 3` raise TypeError while `==` is total;
  a chained comparison `a <= b <= c` evaluates left to right, each operand once, and stops at the first false link;
  `and` / `or` short-circuit; `.end` and `.stop` are the same field.
-/
import GffModel.Feature

namespace GffModel
namespace CritExpr

inductive Who | acc | cur
  deriving DecidableEq, Repr
inductive IntField | start | stop
  deriving DecidableEq, Repr
inductive StrField | seqid | strand | featuretype | source | frame | score
  deriving DecidableEq, Repr

/-- integer-valued expressions: a coordinate of `acc` / `cur`, a literal, the enclosing function's `threshold`, + and - -/
inductive IExpr
  | field (w : Who) (f : IntField)
  | lit (n : Int)
  | threshold
  | add (a b : IExpr)
  | sub (a b : IExpr)
  deriving Repr

/-- boolean expressions -/
inductive BExpr
  | streq (w1 : Who) (f1 : StrField) (w2 : Who) (f2 : StrField)     -- `a.seqid == b.seqid`
  | inteq (a b : IExpr)                                              -- `==` on coordinates (total, also on None)
  | chainLe (first : IExpr) (rest : List IExpr)                      -- `first <= r1 <= r2 ...`
  | and (a b : BExpr)
  | or (a b : BExpr)
  deriving Repr

def pick (w : Who) (acc cur : Feature) : Feature := match w with | .acc => acc | .cur => cur

def strField (f : Feature) : StrField → Str
  | .seqid => f.seqid | .strand => f.strand | .featuretype => f.ftype | .source => f.source
  | .frame => f.frame | .score => f.score

def intField (f : Feature) : IntField → Option Int
  | .start => f.start | .stop => f.stop

/-- value of an integer expression: `none` is Python's `None`; arithmetic on `None` raises TypeError -/
def evalI (t : Int) (acc cur : Feature) : IExpr → Py (Option Int)
  | .field w f => .ok (intField (pick w acc cur) f)
  | .lit n => .ok (some n)
  | .threshold => .ok (some t)
  | .add a b => do
    match (← evalI t acc cur a), (← evalI t acc cur b) with
    | some x, some y => pure (some (x + y))
    | _, _ => .error .type
  | .sub a b => do
    match (← evalI t acc cur a), (← evalI t acc cur b) with
    | some x, some y => pure (some (x - y))
    | _, _ => .error .type

/-- `prev <= r1 <= r2 <= ...` with `prev` already evaluated -/
def evalChain (t : Int) (acc cur : Feature) (prev : Option Int) : List IExpr → Py Bool
  | [] => .ok true
  | e :: rest => do
    let v ← evalI t acc cur e
    match prev, v with
    | some x, some y => if x ≤ y then evalChain t acc cur (some y) rest else pure false
    | _, _ => .error .type

def evalB (t : Int) (acc cur : Feature) : BExpr → Py Bool
  | .streq w1 f1 w2 f2 => .ok (decide (strField (pick w1 acc cur) f1 = strField (pick w2 acc cur) f2))
  | .inteq a b => do
    let x ← evalI t acc cur a
    let y ← evalI t acc cur b
    pure (decide (x = y))
  | .chainLe first rest => do
    let x ← evalI t acc cur first
    evalChain t acc cur x rest
  | .and a b => do
    if (← evalB t acc cur a) then evalB t acc cur b else pure false
  | .or a b => do
    if (← evalB t acc cur a) then pure true else evalB t acc cur b

end CritExpr
end GffModel
