/-
  GffModel.DbExport — the database-backed users of `interfeatures` and `merge`:
  `FeatureDB.create_introns` (interface.py L1195-1324), `create_splice_sites` (L1326-1447),
  `children_bp` (L1763-1826), `merge_all` (L1707-1761, with `assign_child` L14-36).
-/
import GffModel.Interface
import GffModel.Inter
import GffModel.Merge

namespace GffModel
namespace DbExport
open Interface

def interCfg (s : Session) : Inter.DbCfg := { dialect := s.dialect, keepOrder := s.keepOrder, sortVals := s.sortVals }
def mergeCfg (s : Session) : Merge.DbCfg :=
  { dialect := s.dialect, keepOrder := s.keepOrder, sortVals := s.sortVals, d9fixed := true }

/-- `child_gen()`: exactly one of `grandparent_featuretype` / `parent_featuretype` (Python truthiness of the
first, `None`-ness of both) -/
def transcripts (s : Session) (gp pt : Option Str) : Py (List Row) :=
  let gpT := match gp with | some g => !g.isEmpty | none => false
  let ptT := match pt with | some p => !p.isEmpty | none => false
  if (gpT && ptT) || (gp.isNone && pt.isNone) then .error .value
  else if gpT then
    .ok ((runQuery s { featuretype := gp.toList }).flatMap (fun g => runRelation s true g.id (some 1) {}))
  else if ptT then .ok (runQuery s { featuretype := pt.toList })
  else .ok []          -- grandparent '' and parent None/'' : neither generator is defined → no children (UnboundLocalError in Python: outside the domain)

/-- the start-ordered exon children of a transcript, as Features -/
def exonsOf (s : Session) (id : Str) (exonType : Str) : List Feature :=
  (runRelation s true id (some 1) { featuretype := [exonType], orderBy := [.start] }).map s.returner

/-- `create_introns(...)` -/
def createIntrons (s : Session) (exonType : Str) (gp pt : Option Str) (newType : Str)
    (mergeAttrs numeric : Bool) : Py (List Feature) := do
  let ts ← transcripts s gp pt
  let parts ← ts.mapM (fun t =>
    Inter.interfeatures (interCfg s) { newFtype := some newType, mergeAttrs := mergeAttrs, numericSort := numeric }
      (exonsOf s t.id exonType))
  pure parts.flatten

def spliceType (left : Bool) (strand : Str) : Str :=
  if left then
    (if strand = ['+'] then "five_prime_cis_splice_site".toList
     else if strand = ['-'] then "three_prime_cis_splice_site".toList else "splice_site".toList)
  else
    (if strand = ['+'] then "three_prime_cis_splice_site".toList
     else if strand = ['-'] then "five_prime_cis_splice_site".toList else "splice_site".toList)

/-- `create_splice_sites(...)`: first every left site, then every right site -/
def createSpliceSites (s : Session) (exonType : Str) (gp pt : Option Str) (mergeAttrs numeric : Bool) :
    Py (List Feature) := do
  let ts ← transcripts s gp pt
  let side (left : Bool) : Py (List Feature) := do
    let parts ← ts.mapM (fun t => do
      let nt := spliceType left t.strand
      let gaps ← Inter.interfeatures (interCfg s) { newFtype := some nt, mergeAttrs := mergeAttrs, numericSort := numeric }
        (exonsOf s t.id exonType)
      gaps.mapM (fun g => do
        let g : Feature ← match g.start, g.stop with
          | some a, some b => pure (if left then { g with stop := some (a + 1) } else { g with start := some (b - 1) })
          | _, _ => throw PyErr.type
        match g.attrs.get? "ID".toList with
        | some (v :: _) => pure { g with attrs := Dict.set g.attrs "ID".toList [nt ++ ['_'] ++ v] }
        | some [] => throw PyErr.index
        | none => pure g))                            -- `if "ID" in splice_site.attributes:` (no ID with merge_attributes=False)
    pure parts.flatten
  let l ← side true
  let r ← side false
  pure (l ++ r)

/-- `children_bp(feature, child_featuretype, merge, merge_criteria)` -/
def childrenBp (s : Session) (id : Str) (childType : Str) (merge : Bool) (cs : List Merge.Crit) :
    Py (Int × Session) := do
  let kids := (runRelation s true id none { featuretype := [childType], orderBy := [.start] }).map s.returner
  if merge then
    let (outs, ai) ← Merge.merge (mergeCfg s) cs s.auto (kids.map (fun f => { f := f }))
    let lens ← outs.mapM (fun o => Feature.len o.f)
    pure (lens.foldl (· + ·) 0, { s with auto := ai })
  else
    let lens ← kids.mapM Feature.len
    pure (lens.foldl (· + ·) 0, s)

/-- `merge_all(merge_order=('seqid','featuretype','strand','start'), merge_criteria, featuretypes_groups=(None,),
exclude_components)`; returns the merged features and the session -/
def mergeAll (s : Session) (cs : List Merge.Crit) (exclude : Bool) : Py (List Feature × Session) := do
  let rows := runQuery s { orderBy := [.seqid, .featuretype, .strand, .start] }
  let (outs, ai) ← Merge.merge (mergeCfg s) cs s.auto (rows.map (fun r => { f := s.returner r }))
  let s := { s with auto := ai }
  outs.foldlM (fun (acc : List Feature × Session) o => do
    let (res, s) := acc
    match o.children with
    | some (k :: ks) =>
      let row ← Row.ofFeature o.f
      let db ← s.db.insert row
      let s := { s with db := db }
      let mid := row.id
      if exclude then
        pure (res ++ [o.f], delete s ((k :: ks).filterMap (·.id)))
      else
        let s ← (k :: ks).foldlM (fun (s : Session) child => do
          let cid ← match child.id with | some c => pure c | none => throw PyErr.other
          let db ← s.db.insertRel ⟨mid, cid, 1⟩
          -- assign_child: child.attributes['Parent'] = parent['ID'] ; then UPDATE all columns of the child
          let pid ← match o.f.attrs.get? "ID".toList with | some v => pure v | none => throw PyErr.key
          let child := { child with attrs := Dict.set child.attrs "Parent".toList pid }
          let crow ← Row.ofFeature child
          pure { s with db := db.replaceRow cid crow }) s
        pure (res ++ [o.f], s)
    | _ => pure (res, s)) ([], s)

end DbExport
end GffModel
