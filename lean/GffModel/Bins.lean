/-
  GffModel.Bins — `gffutils/bins.py: bins()` (L59-128), over `Int`.

  Python's `>>` on `int` is an arithmetic (floor) shift; `Int.shiftRight` (`>>>`) is the same.
  The constants below are compared with the live module on every run (driver command `consts`).
-/
namespace GffModel
namespace Bins

def firstShift : Nat := 17
def nextShift : Nat := 3
/-- `bins.OFFSETS` -/
def offsets : List Int := [4681, 585, 73, 9, 1]
/-- `bins.MAX_CHROM_SIZE` -/
def maxChrom : Int := 536870912

inductive CoordFmt | gff | bed
  deriving DecidableEq, Repr

/-- `bins.COORD_OFFSETS` -/
def CoordFmt.off : CoordFmt → Int
  | .gff => 1
  | .bed => 0

/-- What the Python function returns: an `int`, or a `set` of ints.  With `one=True` the `set` form
is the fall-through of the `for` loop (`return bins`); it is kept as a distinct constructor so that
it cannot hide. -/
inductive BinResult
  | int (b : Int)
  | set (bs : List Int)
  deriving DecidableEq, Repr

/-- `list(range(a, b))` over `Int`. -/
def rangeInt (a b : Int) : List Int := (List.range (b - a).toNat).map (fun (i : Nat) => a + (i : Int))

/-- The `for offset in OFFSETS` loop; `acc` is the `bins` set (as a list, duplicates allowed). -/
def loop (one : Bool) : List Int → Int → Int → List Int → BinResult
  | [], _, _, acc => .set acc
  | off :: rest, s, e, acc =>
    if one && s == e then .int (off + s)
    else loop one rest (s >>> nextShift) (e >>> nextShift) (acc ++ rangeInt (off + s) (off + e + 1))

/-- `bins.bins(start, stop, fmt, one)`. -/
def bins (start stop : Int) (fmt : CoordFmt) (one : Bool) : BinResult :=
  if start ≥ maxChrom ∨ stop ≥ maxChrom then (if one then .int 1 else .set [1])
  else if start - fmt.off < 0 then (if one then .int 1 else .set [1])
  else if stop < 0 then (if one then .int 1 else .set [1])
  else loop one offsets ((start - fmt.off) >>> firstShift) (stop >>> firstShift) [1]

/-- The `one=True` form. -/
def binOne (start stop : Int) (fmt : CoordFmt := .gff) : BinResult := bins start stop fmt true

/-- Membership in the `one=False` form (false when the result is not a set, which never happens). -/
def inBinSet (b : Int) (start stop : Int) (fmt : CoordFmt := .gff) : Prop :=
  match bins start stop fmt false with
  | .set bs => b ∈ bs
  | .int _ => False

/-- canonical rendering for the protocol: `i <n>` or `s <sorted distinct members>` -/
def BinResult.render : BinResult → String
  | .int b => s!"i {b}"
  | .set bs =>
    let sorted := (bs.toArray.qsort (· < ·)).toList
    let rec dedup : List Int → List Int
      | a :: b :: t => if a == b then dedup (b :: t) else a :: dedup (b :: t)
      | l => l
    "s " ++ " ".intercalate ((dedup sorted).map toString)

end Bins
end GffModel
