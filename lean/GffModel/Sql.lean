/-
  GffModel.Sql — the SQL *text* layer of gffutils' query builder.

  `GffModel/Interface.lean` models every query "by what sqlite computes for it".  This file replaces that
  assumption by three checked layers:

  1. text level   — `makeQuery` (`helpers.make_query`, L121-303, branch for branch, over arbitrary
                    `other` / `extra` / `order_by` strings), `relationText` (`FeatureDB._relation`, L482-510),
                    `regionText` (`FeatureDB.region`, L720-785, after the argument normalisation of L690-715),
                    `countText` / `distinctColText` (`count_features_of_type`, `featuretypes`, `seqids`): the
                    EXACT statement text and the positional argument list, compared byte for byte with the
                    real code on every check (harness/sqltext.py);
  2. AST level    — `SqlQuery` (exactly the statement shapes gffutils generates: the `make_query` template with
                    its slots, the `region` statement, the count and DISTINCT-column statements), `render`,
                    `makeSelect` / `makeQueryAst` / `relationAst` / `regionAst`.
                    GffProofs/Props/C11Sql.lean proves `render (ast) = text`;
  3. semantics    — `eval`: a textbook semantics of that SQL subset over the tables of `GffModel/Db.lean`
                    (FROM/JOIN = nested loops in rowid order, WHERE = conjunction with the `?`s bound
                    positionally in TEXT order (`bind`), DISTINCT, ORDER BY = stable sort under sqlite's type
                    order).  GffProofs proves `eval (ast) args = Interface.runQuery / runRelation / region / …`.

  Python / sqlite behaviour established by experiment on the real code (Python 3.12.1, sqlite 3.40.1); each
  item is re-checked by harness/sqltext.py on every run (statement text, arguments and result rows against the
  real `FeatureDB` on random databases):

  * truthiness: `other`, `extra`, `featuretype`, `limit`, `strand`, `order_by` are used as `if x:` — `None`, `""`,
    `[]`, `()` all mean "absent"; `region()` uses `is not None` for seqid / strand / featuretype, truthiness
    for start / end (`0` = absent), but `is not None` again for the bin clause.
  * errors of `make_query`: `ValueError` for a wrong number of pre-filled `args`, for a `limit` that does not
    unpack into three pieces (`"chr1:5"`, `"a:b:1-2"`, `"chr1:-5-10"`, a 2- or 4-tuple), for a coordinate `int()`
    rejects, and for an invalid name in an `order_by` TUPLE / LIST.  A bare-string `order_by` is NOT validated: it
    is pasted into the text (`"id"`, `"start DESC, end"`, `"?"`, …).
  * `make_query` binds `limit`'s start / end AS GIVEN: the `'seqid:start-end'` string form (and a tuple of
    strings) binds TEXT.  The columns `start`, `end`, `bin`, `relations.level` have INTEGER affinity, so sqlite
    converts a TEXT parameter that is an integer literal — optional blanks (space, \t \n \v \f \r only),
    optional sign, ASCII digits, leading zeros allowed — to INTEGER before comparing (`' 10'`, `'+10'`, `'010'`
    behave as 10).  A TEXT parameter that is no number stays TEXT, and every INTEGER is smaller than every TEXT:
    `start <= '1_0'` is true for every non-NULL start, `end >= '1_0'` for none.  Python's `int()` accepts more
    than sqlite converts (`'1_0'`, non-ASCII digits, blanks such as U+001C / U+00A0): for those, `make_query`
    computes the bins from the integer but sqlite compares text (`sqliteInt?`; C11Sql §4 (b)).  TEXT that sqlite
    would convert to REAL (`'1e1'`, `'10.5'`) cannot reach sqlite through gffutils (`int()` raises first); `eval`
    keeps it TEXT (unmodelled corner, excluded by hypothesis).  `region()` converts with `int()` itself and
    always binds integers (or writes them into the text: `(start <= 12 AND end >= 6)`, negative ones as `-5`).
  * an INTEGER parameter compared with a TEXT column (`seqid = 1`) is converted to its decimal text.
  * Python ints beyond 64 bits cannot be bound (`OverflowError`); not modelled (`Int` is unbounded).
  * NULL (a '.' coordinate; the bin of such a feature) never satisfies `=`, `<=`, `>=`, `<`, `>`, `IN`.
  * ORDER BY: NULL < INTEGER < TEXT, TEXT by code point; `(end - start)` is NULL when either is NULL;
    `ORDER BY a,b DESC` applies DESC to `b` only; `file_order` is the alias of `features.rowid`; `attributes` /
    `extra` sort by their stored JSON text.  The order among ties is NOT stable in sqlite (it scans whichever
    index it chose: `seqidstartend`, `featuretype`, …), and without ORDER BY the row order is the scan order:
    the harness compares as a multiset, and under ORDER BY up to the order among ties; `eval` sorts stably from
    rowid order, like `Interface.runQuery`.
  * `SELECT DISTINCT` of `_relation` is over all selected columns including `features.rowid`, i.e. per feature:
    a feature linked twice (levels 1 and 2) is returned once.
  * a wrong number of bound parameters raises `sqlite3.ProgrammingError` (here `.other`); a reference to a
    `relations` column without the JOIN, `()` and an empty WHERE raise `sqlite3.OperationalError`.
  * `region()` with neither seqid nor a (truthy) start / end executes `… WHERE   ` → OperationalError
    ("incomplete input"; with a featuretype or strand: syntax error), and `featuretype=[]` gives `AND ()` →
    OperationalError.  `IN  ()` with an empty list would be legal SQL but cannot be generated.
  * the text of the `bin IN (…)` list (make_query) and the order of the bin arguments (region) is CPython's
    iteration order of a `set` of small ints: `pySetOrder` simulates `Objects/setobject.c` (open addressing, 9
    linear probes, perturbation shift 5, growth ×4 at 3/5 load, re-insertion in slot order) for the insertion
    sequence of `bins.bins`.
  * `str.lower()` is modelled on ASCII only (`asciiLower`); `str.replace`, `str.count`, `str.join`, `%`-formatting
    and `str.format` by list operations; `int()` by `Str.parseInt?` (ASCII digits, underscores, Python blanks).
-/
import GffModel.Interface
import GffModel.Json

namespace GffModel
namespace Sql
open Interface

/-- a bound parameter: Python `int` or `str` -/
inductive SqlArg
  | int (i : Int)
  | text (s : Str)
  deriving DecidableEq, Repr

/-! ### string helpers -/

/-- `s.count("?")` -/
def qcount (s : Str) : Nat := s.count '?'

/-- `s.lower()` on ASCII -/
def asciiLower (s : Str) : Str :=
  s.map (fun c => if 'A' ≤ c ∧ c ≤ 'Z' then Char.ofNat (c.toNat + 32) else c)

/-- `",".join(["?" for _ in range(n)])` -/
def placeholders (n : Nat) : Str := Str.join [','] (List.replicate n ['?'])

/-- `s.replace(old, new)` (`old` non-empty): leftmost, non-overlapping.  `skip` counts the characters of a
match that are still to be dropped. -/
def replaceGo (old new : Str) : Nat → Str → Str
  | _, [] => []
  | skip + 1, _ :: cs => replaceGo old new skip cs
  | 0, c :: cs =>
    if old.isPrefixOf (c :: cs) then new ++ replaceGo old new (old.length - 1) cs
    else c :: replaceGo old new 0 cs

def replaceAll (old new s : Str) : Str := replaceGo old new 0 s

/-! ### CPython's iteration order of a `set` of small non-negative ints (`Objects/setobject.c`) -/

namespace PySet

/-- look at the entries `i, i+1, …, i+n`: `some (j, false)` = first unused slot, `some (j, true)` = key found -/
def scan (slots : Array (Option Int)) (k : Int) : Nat → Nat → Option (Nat × Bool)
  | i, 0 =>
    match slots[i]? with
    | some none => some (i, false)
    | some (some x) => if x = k then some (i, true) else none
    | none => none
  | i, n + 1 =>
    match slots[i]? with
    | some none => some (i, false)
    | some (some x) => if x = k then some (i, true) else scan slots k (i + 1) n
    | none => none

/-- `set_add_entry`'s probe sequence: `LINEAR_PROBES = 9`, `PERTURB_SHIFT = 5` -/
def probe (slots : Array (Option Int)) (k : Int) : Nat → Nat → Nat → Option (Nat × Bool)
  | 0, _, _ => none
  | fuel + 1, i, perturb =>
    let mask := slots.size - 1
    let probes := if i + 9 ≤ mask then 9 else 0
    match scan slots k i probes with
    | some r => some r
    | none =>
      let p := perturb >>> 5
      probe slots k fuel ((i * 5 + 1 + p) % slots.size) p

def find (slots : Array (Option Int)) (k : Int) : Option (Nat × Bool) :=
  probe slots k (slots.size + 64) (k.toNat % slots.size) k.toNat

/-- `set_insert_clean` -/
def insertClean (slots : Array (Option Int)) (k : Int) : Array (Option Int) :=
  match find slots k with
  | some (j, false) => slots.set! j (some k)
  | _ => slots

def newSize (minused : Nat) : Nat → Nat → Nat
  | 0, sz => sz
  | fuel + 1, sz => if sz ≤ minused then newSize minused fuel (sz * 2) else sz

/-- `set_table_resize`: re-insert in slot order -/
def resize (slots : Array (Option Int)) (used : Nat) : Array (Option Int) :=
  let minused := if used > 50000 then used * 2 else used * 4
  let sz := newSize minused 64 8
  slots.foldl (fun t e => match e with | some k => insertClean t k | none => t) (Array.replicate sz none)

/-- `set_add_key`; `fill = used` (no deletions) -/
def add (t : Array (Option Int) × Nat) (k : Int) : Array (Option Int) × Nat :=
  match find t.1 k with
  | some (j, false) =>
    let slots := t.1.set! j (some k)
    let fill := t.2 + 1
    if fill * 5 < (slots.size - 1) * 3 then (slots, fill) else (resize slots fill, fill)
  | _ => t

/-- `list(set(keys))` for keys inserted in the order of `keys` -/
def order (keys : List Int) : List Int :=
  ((keys.foldl add (Array.replicate 8 none, 0)).1.toList).filterMap id

end PySet

/-- the iteration order of the `set` built by inserting `l` in order.  The simulation is used when it is a
re-arrangement of the distinct members of `l` (always, for non-negative keys); the guard makes the two
properties the proofs need (`same members`, `len = number of distinct members`) hold by construction. -/
def pySetOrder (l : List Int) : List Int :=
  let o := PySet.order l
  if o.length = l.eraseDups.length ∧ o.all (fun x => l.contains x) ∧ l.all (fun x => o.contains x) then o
  else l.eraseDups

/-- `len(_bins)` and the members in iteration order, for `_bins = bins.bins(s, e, one=False)` -/
def binList (s e : Int) : List Int :=
  match Bins.bins s e .gff false with
  | .set bs => pySetOrder bs
  | .int b => [b]

/-- the condition under which `make_query` (L246-250) / `region` (L763-767) add the bin restriction -/
def binClause (s e : Int) : Option (List Int) :=
  if 0 < s ∧ s < Bins.maxChrom ∧ 0 ≤ e ∧ e < Bins.maxChrom then
    let bs := binList s e
    if bs.length < 900 then some bs else none
  else none

/-! ### text level: `helpers.make_query` -/

/-- `constants._SELECT` -/
def selectText : Str :=
  "SELECT id, seqid, source, featuretype, start, end, score, strand, frame, attributes, extra, bin, features.rowid as file_order FROM features ".toList

/-- `featuretype=` : `None`, a `str`, or a list / tuple of `str` -/
inductive Ft
  | none
  | str (s : Str)
  | coll (l : List Str)
  deriving DecidableEq, Repr

/-- `limit=` : `None`, `"seqid:start-end"`, or a tuple / list of ints and strings -/
inductive Limit
  | none
  | str (s : Str)
  | tuple (l : List SqlArg)
  deriving DecidableEq, Repr

/-- `order_by=` : `None`, a `str`, or a tuple / list of `str` -/
inductive OrderBy
  | none
  | str (s : Str)
  | tuple (l : List Str)
  deriving DecidableEq, Repr

structure MqArgs where
  args : List SqlArg := []
  other : Option Str := none
  limit : Limit := .none
  strand : Option Str := none
  featuretype : Ft := .none
  extra : Option Str := none
  orderBy : OrderBy := .none
  reverse : Bool := false
  within : Bool := false
  deriving Repr

/-- `int(x)` for an `int` or a `str` -/
def pyInt : SqlArg → Py Int
  | .int i => .ok i
  | .text s => match Str.parseInt? s with | some i => .ok i | none => .error .value

/-- L198-211 -/
def ftSlot : Ft → Str × List SqlArg
  | .none => ([], [])
  | .str s => if s.isEmpty then ([], []) else ("features.featuretype = ?".toList, [.text s])
  | .coll l =>
    if l.isEmpty then ([], [])
    else ("features.featuretype IN  (".toList ++ placeholders l.length ++ [')'], l.map .text)

/-- L220-224: `seqid, start, end` (unpacking a wrong number of pieces is a `ValueError`) -/
def limitParts : Limit → Py (Option (SqlArg × SqlArg × SqlArg))
  | .none => .ok none
  | .str s =>
    if s.isEmpty then .ok none else
    match Str.splitChar ':' s with
    | [seqid, ss] =>
      match Str.splitChar '-' ss with
      | [a, b] => .ok (some (.text seqid, .text a, .text b))
      | _ => .error .value
    | _ => .error .value
  | .tuple l =>
    match l with
    | [] => .ok none
    | [a, b, c] => .ok (some (a, b, c))
    | _ => .error .value

def limitWithinText : Str := "features.seqid = ? AND features.start >= ? AND features.end <= ?".toList
def limitOverlapText : Str := "features.seqid = ? AND features.start <= ? AND features.end >= ?".toList

/-- L213-251 -/
def limitSlot (lim : Limit) (within : Bool) : Py (Str × List SqlArg) := do
  match ← limitParts lim with
  | none => pure ([], [])
  | some (seqid, start, stop) =>
    let s ← pyInt start
    let e ← pyInt stop
    let (txt, args) :=
      if within then (limitWithinText, [seqid, start, stop])
      else (limitOverlapText, [seqid, stop, start])          -- "Note order (end, start)"
    match binClause s e with
    | some bs =>
      pure (txt ++ " AND features.bin IN (".toList ++ Str.join [','] (bs.map Str.intToStr) ++ [')'], args)
    | none => pure (txt, args)

/-- L253-256 -/
def strandSlot : Option Str → Str × List SqlArg
  | none => ([], [])
  | some s => if s.isEmpty then ([], []) else ("features.strand = ?".toList, [.text s])

/-- `constants._gffkeys_extra + ["file_order", "length"]` -/
def validOrderBy : List Str :=
  ["seqid", "source", "featuretype", "start", "end", "score", "strand", "frame", "attributes", "extra",
   "file_order", "length"].map String.toList

def lengthSubst (k : Str) : Str := if k = "length".toList then "(end - start)".toList else k

def orderText (terms : List Str) (reverse : Bool) : Str :=
  "ORDER BY ".toList ++ Str.join [','] terms ++ [' '] ++ (if reverse then "DESC".toList else "ASC".toList)

/-- L259-289: only the elements of a tuple are validated; a bare string goes into the text as it is -/
def orderSlot (ob : OrderBy) (reverse : Bool) : Py Str :=
  match ob with
  | .none => .ok []
  | .str s => if s.isEmpty then .ok [] else .ok (orderText [lengthSubst s] reverse)
  | .tuple l =>
    if l.isEmpty then .ok []
    else if l.all (fun k => validOrderBy.contains k) then .ok (orderText (l.map lengthSubst) reverse)
    else .error .value

/-- L295-301: the first non-empty clause gets `WHERE ` unless a WHERE is already there, the others `AND ` -/
def prefixSlot (wh : Bool) (slot : Str) : Str × Bool :=
  if slot.isEmpty then (slot, wh)
  else if wh then ("AND ".toList ++ slot, true)
  else ("WHERE ".toList ++ slot, true)

/-- `_QUERY.format(**d)` -/
def formatQuery (sel other extra ft limit strand order : Str) : Str :=
  sel ++ [' '] ++ other ++ [' '] ++ extra ++ [' '] ++ ft ++ [' '] ++ limit ++ [' '] ++ strand ++ [' '] ++ order

/-- the body of `make_query` once `d["OTHER"]` / `d["EXTRA"]` are set (`if other:` / `if extra:` — an absent or
empty value leaves the empty default) -/
def makeQueryCore (other extra : Str) (args : List SqlArg) (limit : Limit) (strand : Option Str) (featuretype : Ft)
    (orderBy : OrderBy) (reverse within : Bool) : Py (Str × List SqlArg) := do
  if args.length ≠ qcount (extra ++ other) then throw .value
  let (ft, a1) := ftSlot featuretype
  let (lim, a2) ← limitSlot limit within
  let (st, a3) := strandSlot strand
  let ob ← orderSlot orderBy reverse
  let w0 := Str.containsSub (asciiLower other) "where".toList
  let (extra', w1) := prefixSlot w0 extra
  let (ft', w2) := prefixSlot w1 ft
  let (lim', w3) := prefixSlot w2 lim
  let (st', _) := prefixSlot w3 st
  pure (formatQuery selectText other extra' ft' lim' st' ob, args ++ a1 ++ a2 ++ a3)

/-- `helpers.make_query(args, other, limit, strand, featuretype, extra, order_by, reverse, completely_within)`:
the query text and the argument list -/
def makeQuery (a : MqArgs) : Py (Str × List SqlArg) :=
  makeQueryCore (a.other.getD []) (a.extra.getD []) a.args a.limit a.strand a.featuretype a.orderBy a.reverse a.within

/-! ### the AST -/

inductive FCol
  | id | seqid | source | featuretype | start | stop | score | strand | frame | attributes | extra | bin
  deriving DecidableEq, Repr

inductive RCol
  | parent | child | level
  deriving DecidableEq, Repr

def FCol.name : FCol → Str
  | .id => "id".toList | .seqid => "seqid".toList | .source => "source".toList
  | .featuretype => "featuretype".toList | .start => "start".toList | .stop => "end".toList
  | .score => "score".toList | .strand => "strand".toList | .frame => "frame".toList
  | .attributes => "attributes".toList | .extra => "extra".toList | .bin => "bin".toList

def RCol.name : RCol → Str
  | .parent => "parent".toList | .child => "child".toList | .level => "level".toList

/-- a column as spelled in the text: `features.seqid` / `seqid` / `relations.level` -/
inductive ColRef
  | feat (qualified : Bool) (c : FCol)
  | rel (c : RCol)
  deriving DecidableEq, Repr

def ColRef.render : ColRef → Str
  | .feat true c => "features.".toList ++ c.name
  | .feat false c => c.name
  | .rel c => "relations.".toList ++ c.name

inductive Cmp
  | le | ge | lt | gt
  deriving DecidableEq, Repr

def Cmp.render : Cmp → Str
  | .le => "<=".toList | .ge => ">=".toList | .lt => "<".toList | .gt => ">".toList

/-- the atomic conditions of a WHERE conjunction -/
inductive Cond
  | eqP (c : ColRef)                              -- `c = ?`
  | inP (c : ColRef) (n : Nat)                    -- `c IN  (?,…,?)`
  | cmpP (c : ColRef) (op : Cmp)                  -- `c <= ?`
  | inLits (c : ColRef) (lits : List Int)         -- `c IN (1,9,73)`
  | overlapLits (hi lo : Int)                     -- `(start <= hi AND end >= lo)`          (region)
  | orEqP (c : ColRef) (n : Nat) (spaced : Bool)  -- `( c = ? or … or c = ? )` / `(c = ? or …)` (region)
  deriving DecidableEq, Repr

def Cond.render : Cond → Str
  | .eqP c => c.render ++ " = ?".toList
  | .inP c n => c.render ++ " IN  (".toList ++ placeholders n ++ [')']
  | .cmpP c op => c.render ++ [' '] ++ op.render ++ " ?".toList
  | .inLits c lits => c.render ++ " IN (".toList ++ Str.join [','] (lits.map Str.intToStr) ++ [')']
  | .overlapLits hi lo =>
    "(start <= ".toList ++ Str.intToStr hi ++ " AND end >= ".toList ++ Str.intToStr lo ++ [')']
  | .orEqP c n spaced =>
    let body := Str.join " or ".toList (List.replicate n (c.render ++ " = ?".toList))
    if spaced then "( ".toList ++ body ++ " )".toList else ['('] ++ body ++ [')']

/-- number of `?` of a condition -/
def Cond.arity : Cond → Nat
  | .eqP _ => 1
  | .inP _ n => n
  | .cmpP _ _ => 1
  | .inLits _ _ => 0
  | .overlapLits _ _ => 0
  | .orEqP _ n _ => n

/-- what may follow ORDER BY: a column, the alias `file_order`, `(end - start)` -/
inductive OrderKey
  | col (c : FCol)
  | fileOrder
  | length
  deriving DecidableEq, Repr

def OrderKey.render : OrderKey → Str
  | .col c => c.name
  | .fileOrder => "file_order".toList
  | .length => "(end - start)".toList

/-- the Python-side name (`order_by=` value) of a key -/
def OrderKey.pyName : OrderKey → Str
  | .length => "length".toList
  | k => k.render

def allOrderKeys : List OrderKey :=
  [.col .id, .col .seqid, .col .source, .col .featuretype, .col .start, .col .stop, .col .score, .col .strand,
   .col .frame, .col .attributes, .col .extra, .col .bin, .fileOrder, .length]

def OrderKey.ofPyName (s : Str) : Option OrderKey := allOrderKeys.find? (fun k => k.pyName = s)

/-- an ORDER BY term: a known key, or text that `make_query` passed through unvalidated -/
inductive OrderTerm
  | key (k : OrderKey)
  | raw (s : Str)
  deriving DecidableEq, Repr

def OrderTerm.render : OrderTerm → Str
  | .key k => k.render
  | .raw s => s

def OrderTerm.ofPyName (s : Str) : OrderTerm :=
  match OrderKey.ofPyName s with
  | some k => .key k
  | none => .raw s

/-- the `other` texts the callers use: `JOIN relations ON relations.<on> = features.id WHERE relations.<to> = ?` -/
def otherText (on to : RCol) : Str :=
  "\n        JOIN relations\n        ON relations.".toList ++ on.name ++
  " = features.id\n        WHERE relations.".toList ++ to.name ++ " = ?\n        ".toList

def levelText : Str := "relations.level = ?".toList

/-- the statement assembled by `make_query`: the template `{_SELECT} {OTHER} {EXTRA} {FEATURETYPE} {LIMIT}
{STRAND} {ORDER_BY}` with its slots -/
structure Select where
  distinct : Bool := false
  join : Option (RCol × RCol) := none          -- (on, to)
  extra : Option Cond := none
  ft : Option Cond := none
  limit : List Cond := []                       -- joined by ` AND `; `[]` = empty slot
  strand : Option Cond := none
  order : Option (List OrderTerm × Bool) := none  -- terms, DESC?
  deriving DecidableEq, Repr

/-- the statement assembled by `FeatureDB.region` -/
structure RegionStmt where
  position : List Cond
  bin : Option Cond
  ft : Option Cond
  strand : Option Cond
  deriving DecidableEq, Repr

inductive SqlQuery
  | select (s : Select)
  | region (r : RegionStmt)
  | count (byType : Bool)          -- `SELECT count() FROM features [WHERE featuretype = ?]`
  | distinctCol (c : FCol)         -- `SELECT DISTINCT <c> from features`
  deriving DecidableEq, Repr

def selectDistinctText : Str :=
  "SELECT DISTINCT id, seqid, source, featuretype, start, end, score, strand, frame, attributes, extra, bin, features.rowid as file_order FROM features ".toList

def optRender : Option Cond → Str
  | none => []
  | some c => c.render

def conjRender (cs : List Cond) : Str := Str.join " AND ".toList (cs.map Cond.render)

def Select.render (s : Select) : Str :=
  let other := match s.join with | some (on, to) => otherText on to | none => []
  let (extra, w1) := prefixSlot s.join.isSome (optRender s.extra)
  let (ft, w2) := prefixSlot w1 (optRender s.ft)
  let (lim, w3) := prefixSlot w2 (conjRender s.limit)
  let (st, _) := prefixSlot w3 (optRender s.strand)
  let ob := match s.order with
    | none => []
    | some (ts, desc) => orderText (ts.map OrderTerm.render) desc
  formatQuery (if s.distinct then selectDistinctText else selectText) other extra ft lim st ob

def RegionStmt.render (r : RegionStmt) : Str :=
  let binText := match r.bin with | some c => "AND ".toList ++ c.render | none => []
  let q := Str.join [' '] [selectText, "WHERE ".toList, conjRender r.position, binText]
  let q := match r.ft with | some c => q ++ " AND ".toList ++ c.render ++ [' '] | none => q
  match r.strand with | some c => q ++ " and ".toList ++ c.render ++ [' '] | none => q

def countText (byType : Bool) : Str :=
  if byType then
    "\n                SELECT count() FROM features\n                WHERE featuretype = ?\n                ".toList
  else "\n                SELECT count() FROM features\n                ".toList

def distinctColText (c : FCol) : Str :=
  "\n            SELECT DISTINCT ".toList ++ c.name ++ " from features\n            ".toList

/-- the exact statement text -/
def render : SqlQuery → Str
  | .select s => s.render
  | .region r => r.render
  | .count b => countText b
  | .distinctCol c => distinctColText c

/-! ### semantics -/

/-- the semantic content of a statement: what is joined, the WHERE conjunction in TEXT order, DISTINCT,
ORDER BY -/
structure Core where
  distinct : Bool
  join : Option RCol            -- `JOIN relations ON relations.<c> = features.id`
  conds : List Cond
  order : Option (List OrderTerm × Bool)
  deriving Repr

def SqlQuery.core : SqlQuery → Core
  | .select s =>
    { distinct := s.distinct, join := s.join.map (·.1),
      conds := (match s.join with | some (_, to) => [Cond.eqP (.rel to)] | none => []) ++
               s.extra.toList ++ s.ft.toList ++ s.limit ++ s.strand.toList,
      order := s.order }
  | .region r =>
    { distinct := false, join := none,
      conds := r.position ++ r.bin.toList ++ r.ft.toList ++ r.strand.toList, order := none }
  | .count b =>
    { distinct := false, join := none,
      conds := if b then [Cond.eqP (.feat false .featuretype)] else [], order := none }
  | .distinctCol _ => { distinct := false, join := none, conds := [], order := none }

/-- a condition with its parameters bound -/
inductive BCond
  | eq (c : ColRef) (v : SqlArg)
  | isIn (c : ColRef) (vs : List SqlArg)
  | cmp (c : ColRef) (op : Cmp) (v : SqlArg)
  | inLits (c : ColRef) (lits : List Int)
  | overlapLits (hi lo : Int)
  deriving DecidableEq, Repr

/-- bind the next `arity` arguments to a condition -/
def bindCond (c : Cond) (args : List SqlArg) : Option (BCond × List SqlArg) :=
  match c with
  | .eqP col => match args with | v :: rest => some (.eq col v, rest) | [] => none
  | .inP col n => if n ≤ args.length then some (.isIn col (args.take n), args.drop n) else none
  | .cmpP col op => match args with | v :: rest => some (.cmp col op v, rest) | [] => none
  | .inLits col lits => some (.inLits col lits, args)
  | .overlapLits hi lo => some (.overlapLits hi lo, args)
  | .orEqP col n _ => if n ≤ args.length then some (.isIn col (args.take n), args.drop n) else none

/-- positional binding in text order; every argument must be consumed -/
def bindConds : List Cond → List SqlArg → Option (List BCond)
  | [], [] => some []
  | [], _ :: _ => none
  | c :: cs, args =>
    match bindCond c args with
    | none => none
    | some (b, rest) => (bindConds cs rest).map (b :: ·)

structure BoundQuery where
  distinct : Bool
  join : Option RCol
  conds : List BCond
  order : Option (List OrderTerm × Bool)
  deriving Repr

/-- the statement with each `?` replaced by the argument sqlite binds to it; `none` = wrong number of
arguments (`sqlite3.ProgrammingError`) -/
def bind (q : SqlQuery) (args : List SqlArg) : Option BoundQuery :=
  (bindConds q.core.conds args).map
    (fun bs => { distinct := q.core.distinct, join := q.core.join, conds := bs, order := q.core.order })

/-- a row of the FROM clause: a features row with its rowid, joined (or not) with a relations row -/
structure JRow where
  rowid : Nat
  row : Row
  rel : Option Rel

inductive Affinity | int | text
  deriving DecidableEq

def ColRef.affinity : ColRef → Affinity
  | .feat _ .start => .int | .feat _ .stop => .int | .feat _ .bin => .int
  | .rel .level => .int
  | _ => .text

def fcolVal (_rowid : Nat) (r : Row) : FCol → SqlVal
  | .id => .text r.id | .seqid => .text r.seqid | .source => .text r.source | .featuretype => .text r.ftype
  | .start => optInt r.start | .stop => optInt r.stop | .score => .text r.score | .strand => .text r.strand
  | .frame => .text r.frame | .attributes => .text (Json.encodeAttrs r.attrs)
  | .extra => .text (Json.encodeList r.extra) | .bin => optInt r.bin

def colVal (j : JRow) : ColRef → SqlVal
  | .feat _ c => fcolVal j.rowid j.row c
  | .rel c =>
    match j.rel with
    | none => .null
    | some r => match c with | .parent => .text r.parent | .child => .text r.child | .level => .int r.level

/-- the blanks sqlite skips around a number -/
def sqliteSpace (c : Char) : Bool :=
  c = ' ' || c = '\t' || c = '\n' || c = '\r' || c.toNat = 0x0b || c.toNat = 0x0c

/-- the TEXT values sqlite's NUMERIC affinity turns into an INTEGER: blanks, optional sign, ASCII digits -/
def sqliteInt? (s : Str) : Option Int :=
  let t := ((s.dropWhile sqliteSpace).reverse.dropWhile sqliteSpace).reverse
  match t with
  | '-' :: ds => (Str.parseNat? ds).map (fun n => - (n : Int))
  | '+' :: ds => (Str.parseNat? ds).map (fun n => (n : Int))
  | ds => (Str.parseNat? ds).map (fun n => (n : Int))

/-- a parameter as compared with a column of the given affinity -/
def coerce : Affinity → SqlArg → SqlVal
  | .int, .int i => .int i
  | .int, .text s => match sqliteInt? s with | some i => .int i | none => .text s
  | .text, .int i => .text (Str.intToStr i)
  | .text, .text s => .text s

/-- `v = p` is TRUE (never with a NULL) -/
def eqVal (v p : SqlVal) : Bool :=
  match v, p with
  | .null, _ => false
  | _, .null => false
  | v, p => decide (v = p)

/-- `v op p` is TRUE (never with a NULL); cross-type by sqlite's order -/
def cmpVal (op : Cmp) (v p : SqlVal) : Bool :=
  match v, p with
  | .null, _ => false
  | _, .null => false
  | v, p =>
    match op with
    | .le => v.le p
    | .ge => p.le v
    | .lt => v.le p && !decide (v = p)
    | .gt => p.le v && !decide (v = p)

/-- is the bound condition TRUE on this row (a WHERE conjunction keeps the rows on which every condition is
TRUE; NULL counts as not TRUE) -/
def evalB (j : JRow) : BCond → Bool
  | .eq c v => eqVal (colVal j c) (coerce c.affinity v)
  | .isIn c vs => vs.any (fun v => eqVal (colVal j c) (coerce c.affinity v))
  | .cmp c op v => cmpVal op (colVal j c) (coerce c.affinity v)
  | .inLits c lits => lits.any (fun l => eqVal (colVal j c) (coerce c.affinity (.int l)))
  | .overlapLits hi lo =>
    cmpVal .le (colVal j (.feat false .start)) (.int hi) && cmpVal .ge (colVal j (.feat false .stop)) (.int lo)

/-- FROM features [JOIN relations ON relations.<on> = features.id]: nested loops in rowid order -/
def product (db : Db) : Option RCol → List JRow
  | none => (indexed db.features).map (fun p => { rowid := p.1, row := p.2, rel := none })
  | some on =>
    (indexed db.features).flatMap (fun p =>
      (db.relations.filter (fun r =>
          eqVal (colVal { rowid := p.1, row := p.2, rel := some r } (.rel on)) (.text p.2.id))).map
        (fun r => { rowid := p.1, row := p.2, rel := some r }))

/-- DISTINCT: first occurrence kept -/
def distinct {α : Type} [DecidableEq α] : List α → List α
  | [] => []
  | a :: as => a :: (distinct as).filter (fun x => x ≠ a)

def keyVal (p : Nat × Row) : OrderKey → SqlVal
  | .col c => fcolVal p.1 p.2 c
  | .fileOrder => .int p.1
  | .length =>
    match p.2.start, p.2.stop with
    | some s, some e => .int (e - s)
    | _, _ => .null

/-- `ORDER BY k1,…,kn ASC|DESC`: the direction belongs to the last term -/
def keysLe (keys : List OrderKey) (desc : Bool) (a b : Nat × Row) : Bool :=
  match keys with
  | [] => true
  | [k] =>
    let va := keyVal a k; let vb := keyVal b k
    if desc then vb.le va else va.le vb
  | k :: rest =>
    let va := keyVal a k; let vb := keyVal b k
    if va = vb then keysLe rest desc a b else va.le vb

def termKeys : List OrderTerm → Option (List OrderKey)
  | [] => some []
  | .key k :: ts => (termKeys ts).map (k :: ·)
  | .raw _ :: _ => none

def Cond.usesRel : Cond → Bool
  | .eqP (.rel _) | .inP (.rel _) _ | .cmpP (.rel _) _ | .inLits (.rel _) _ | .orEqP (.rel _) _ _ => true
  | _ => false

def Cond.syntaxOk : Cond → Bool
  | .orEqP _ n _ => decide (0 < n)
  | _ => true

/-- does sqlite accept the text?  (what can go wrong in the shapes above: an empty WHERE, `()`, an empty
ORDER BY list, a `relations` column without the JOIN) -/
def SqlQuery.accepted (q : SqlQuery) : Bool :=
  q.core.conds.all Cond.syntaxOk &&
  (q.core.join.isSome || !(q.core.conds.any Cond.usesRel)) &&
  (match q.core.order with | some ([], _) => false | _ => true) &&
  (match q with | .region r => !r.position.isEmpty | _ => true)

/-- the rows (`rowid`, columns) the statement returns with these arguments.
`.operational` = sqlite rejects the text, `.other` = wrong number of arguments (ProgrammingError) or an
unvalidated ORDER BY text this model cannot interpret. -/
def eval (q : SqlQuery) (args : List SqlArg) (db : Db) : Py (List (Nat × Row)) :=
  if !q.accepted then .error .operational else
  match bind q args with
  | none => .error .other
  | some b =>
    let rows := ((product db b.join).filter (fun j => b.conds.all (evalB j))).map (fun j => (j.rowid, j.row))
    let rows := if b.distinct then distinct rows else rows
    match b.order with
    | none => .ok rows
    | some (ts, desc) =>
      match termKeys ts with
      | none => .error .other
      | some keys => .ok (rows.mergeSort (keysLe keys desc))

/-- `SELECT count() …` -/
def evalCount (byType : Bool) (args : List SqlArg) (db : Db) : Py Nat :=
  (eval (.count byType) args db).map List.length

/-- `SELECT DISTINCT <c> from features` (text columns) -/
def evalDistinctCol (c : FCol) (db : Db) : Py (List SqlVal) :=
  (eval (.distinctCol c) [] db).map (fun rows => distinct (rows.map (fun p => fcolVal p.1 p.2 c)))

/-! ### AST level: `make_query` for the `other` / `extra` texts the callers use -/

inductive Other
  | none
  | join (on to : RCol)
  deriving DecidableEq, Repr

inductive Extra
  | none
  | level
  deriving DecidableEq, Repr

structure SArgs where
  args : List SqlArg := []
  other : Other := .none
  limit : Limit := .none
  strand : Option Str := none
  featuretype : Ft := .none
  extra : Extra := .none
  orderBy : OrderBy := .none
  reverse : Bool := false
  within : Bool := false
  deriving Repr

def SArgs.toMq (a : SArgs) : MqArgs :=
  { args := a.args,
    other := match a.other with | .none => none | .join on to => some (otherText on to),
    limit := a.limit, strand := a.strand, featuretype := a.featuretype,
    extra := match a.extra with | .none => none | .level => some levelText,
    orderBy := a.orderBy, reverse := a.reverse, within := a.within }

def ftCond : Ft → Option Cond × List SqlArg
  | .none => (none, [])
  | .str s => if s.isEmpty then (none, []) else (some (.eqP (.feat true .featuretype)), [.text s])
  | .coll l => if l.isEmpty then (none, []) else (some (.inP (.feat true .featuretype) l.length), l.map .text)

def limitConds (lim : Limit) (within : Bool) : Py (List Cond × List SqlArg) := do
  match ← limitParts lim with
  | none => pure ([], [])
  | some (seqid, start, stop) =>
    let s ← pyInt start
    let e ← pyInt stop
    let (cs, args) :=
      if within then
        ([Cond.eqP (.feat true .seqid), .cmpP (.feat true .start) .ge, .cmpP (.feat true .stop) .le],
         [seqid, start, stop])
      else
        ([Cond.eqP (.feat true .seqid), .cmpP (.feat true .start) .le, .cmpP (.feat true .stop) .ge],
         [seqid, stop, start])
    match binClause s e with
    | some bs => pure (cs ++ [.inLits (.feat true .bin) bs], args)
    | none => pure (cs, args)

def strandCond : Option Str → Option Cond × List SqlArg
  | none => (none, [])
  | some s => if s.isEmpty then (none, []) else (some (.eqP (.feat true .strand)), [.text s])

def orderAst (ob : OrderBy) (reverse : Bool) : Py (Option (List OrderTerm × Bool)) :=
  match ob with
  | .none => .ok none
  | .str s => if s.isEmpty then .ok none else .ok (some ([OrderTerm.ofPyName s], reverse))
  | .tuple l =>
    if l.isEmpty then .ok none
    else if l.all (fun k => validOrderBy.contains k) then .ok (some (l.map OrderTerm.ofPyName, reverse))
    else .error .value

def Other.arity : Other → Nat | .none => 0 | .join _ _ => 1
def Extra.arity : Extra → Nat | .none => 0 | .level => 1

/-- `make_query` as an AST builder -/
def makeSelect (a : SArgs) : Py (Select × List SqlArg) := do
  if a.args.length ≠ a.extra.arity + a.other.arity then throw .value
  let (ft, a1) := ftCond a.featuretype
  let (lim, a2) ← limitConds a.limit a.within
  let (st, a3) := strandCond a.strand
  let ob ← orderAst a.orderBy a.reverse
  pure ({ distinct := false,
          join := match a.other with | .none => none | .join on to => some (on, to),
          extra := match a.extra with | .none => none | .level => some (.eqP (.rel .level)),
          ft := ft, limit := lim, strand := st, order := ob },
        a.args ++ a1 ++ a2 ++ a3)

def makeQueryAst (a : SArgs) : Py (SqlQuery × List SqlArg) :=
  (makeSelect a).map (fun p => (.select p.1, p.2))

/-! ### callers -/

/-- the keyword arguments `children` / `parents` forward to `_relation` -/
structure RelArgs where
  isChildren : Bool
  id : Str
  level : Option Int := none
  limit : Limit := .none
  featuretype : Ft := .none
  orderBy : OrderBy := .none
  reverse : Bool := false
  within : Bool := false
  deriving Repr

def RelArgs.on (r : RelArgs) : RCol := if r.isChildren then .child else .parent
def RelArgs.to (r : RelArgs) : RCol := if r.isChildren then .parent else .child

def RelArgs.initArgs (r : RelArgs) : List SqlArg :=
  [.text r.id] ++ (match r.level with | some l => [.int l] | none => [])

/-- `FeatureDB._relation` (L482-508): text and arguments as executed -/
def relationText (r : RelArgs) : Py (Str × List SqlArg) := do
  let (q, args) ← makeQuery
    { args := r.initArgs, other := some (otherText r.on r.to),
      extra := some (match r.level with | some _ => levelText | none => []),
      featuretype := r.featuretype, orderBy := r.orderBy, reverse := r.reverse, limit := r.limit,
      within := r.within }
  pure (replaceAll "SELECT".toList "SELECT DISTINCT".toList q, args)

def RelArgs.toSArgs (r : RelArgs) : SArgs :=
  { args := r.initArgs, other := .join r.on r.to,
    extra := match r.level with | some _ => .level | none => .none,
    featuretype := r.featuretype, orderBy := r.orderBy, reverse := r.reverse, limit := r.limit, within := r.within }

def relationAst (r : RelArgs) : Py (SqlQuery × List SqlArg) :=
  (makeSelect r.toSArgs).map (fun p => (.select { p.1 with distinct := true }, p.2))

/-- `all_features` / `features_of_type` (`args=[]`, no `other` / `extra`) -/
def featuresText (limit : Limit) (strand : Option Str) (ft : Ft) (ob : OrderBy) (reverse within : Bool) :
    Py (Str × List SqlArg) :=
  makeQuery { limit := limit, strand := strand, featuretype := ft, orderBy := ob, reverse := reverse, within := within }

def featuresAst (limit : Limit) (strand : Option Str) (ft : Ft) (ob : OrderBy) (reverse within : Bool) :
    Py (SqlQuery × List SqlArg) :=
  makeQueryAst { limit := limit, strand := strand, featuretype := ft, orderBy := ob, reverse := reverse, within := within }

/-! `FeatureDB.region` L720-785 on normalised arguments (`Interface.RegionArgs`).  The Python code appends to
`args` clause by clause; here each clause returns its own text / condition and its own arguments, and the
statement concatenates them in the same order. -/

/-- L720-726: in overlap mode `end, start = start, end` -/
def regionStart (a : RegionArgs) : Option Int := if a.within then a.start else a.stop
def regionStop (a : RegionArgs) : Option Int := if a.within then a.stop else a.start
def regionStartOp (a : RegionArgs) : Cmp := if a.within then .ge else .lt
def regionEndOp (a : RegionArgs) : Cmp := if a.within then .le else .gt

/-- L728-757: the pieces of `position_clause` -/
def regionPosText (a : RegionArgs) : List Str × List SqlArg :=
  let seqP : List Str × List SqlArg :=
    match a.seqid with
    | some sq => (["seqid = ?".toList], [.text sq])
    | none => ([], [])
  let coordP : List Str × List SqlArg :=
    match truthy (regionStart a), truthy (regionStop a), a.within with
    | some s, some e, false =>
      (["(start <= ".toList ++ Str.intToStr s ++ " AND end >= ".toList ++ Str.intToStr e ++ [')']], [])
    | s?, e?, _ =>
      let p1 : List Str × List SqlArg :=
        match s? with
        | some s => (["start ".toList ++ (regionStartOp a).render ++ " ?".toList], [.int s])
        | none => ([], [])
      let p2 : List Str × List SqlArg :=
        match e? with
        | some e => (["end ".toList ++ (regionEndOp a).render ++ " ?".toList], [.int e])
        | none => ([], [])
      (p1.1 ++ p2.1, p1.2 ++ p2.2)
  (seqP.1 ++ coordP.1, seqP.2 ++ coordP.2)

/-- L762-770: `_bin_clause` -/
def regionBinText (a : RegionArgs) : Str × List SqlArg :=
  match regionStart a, regionStop a, a.within with
  | some s, some e, true =>
    (match binClause s e with
     | some bs =>
       ("AND ( ".toList ++ Str.join " or ".toList (bs.map (fun _ => "bin = ?".toList)) ++ " )".toList, bs.map .int)
     | none => ([], []))
  | _, _, _ => ([], [])

/-- L775-780 -/
def regionFtText (a : RegionArgs) : Str × List SqlArg :=
  match a.featuretype with
  | some fts =>
    (" AND (".toList ++ Str.join " or ".toList (fts.map (fun _ => "featuretype = ?".toList)) ++ ") ".toList, fts.map .text)
  | none => ([], [])

/-- L782-785 -/
def regionStrandText (a : RegionArgs) : Str × List SqlArg :=
  match a.strand with
  | some st => (" and strand = ? ".toList, [.text st])
  | none => ([], [])

/-- text and arguments as executed -/
def regionText (a : RegionArgs) : Str × List SqlArg :=
  let pos := regionPosText a
  let bin := regionBinText a
  let ft := regionFtText a
  let st := regionStrandText a
  (Str.join [' '] [selectText, "WHERE ".toList, Str.join " AND ".toList pos.1, bin.1] ++ ft.1 ++ st.1,
   pos.2 ++ bin.2 ++ ft.2 ++ st.2)

def regionPos (a : RegionArgs) : List Cond × List SqlArg :=
  let seqP : List Cond × List SqlArg :=
    match a.seqid with
    | some sq => ([Cond.eqP (.feat false .seqid)], [.text sq])
    | none => ([], [])
  let coordP : List Cond × List SqlArg :=
    match truthy (regionStart a), truthy (regionStop a), a.within with
    | some s, some e, false => ([.overlapLits s e], [])
    | s?, e?, _ =>
      let p1 : List Cond × List SqlArg :=
        match s? with
        | some s => ([.cmpP (.feat false .start) (regionStartOp a)], [.int s])
        | none => ([], [])
      let p2 : List Cond × List SqlArg :=
        match e? with
        | some e => ([.cmpP (.feat false .stop) (regionEndOp a)], [.int e])
        | none => ([], [])
      (p1.1 ++ p2.1, p1.2 ++ p2.2)
  (seqP.1 ++ coordP.1, seqP.2 ++ coordP.2)

def regionBin (a : RegionArgs) : Option Cond × List SqlArg :=
  match regionStart a, regionStop a, a.within with
  | some s, some e, true =>
    (match binClause s e with
     | some bs => (some (.orEqP (.feat false .bin) bs.length true), bs.map .int)
     | none => (none, []))
  | _, _, _ => (none, [])

def regionFt (a : RegionArgs) : Option Cond × List SqlArg :=
  match a.featuretype with
  | some fts => (some (.orEqP (.feat false .featuretype) fts.length false), fts.map .text)
  | none => (none, [])

def regionStrand (a : RegionArgs) : Option Cond × List SqlArg :=
  match a.strand with
  | some st => (some (.eqP (.feat false .strand)), [.text st])
  | none => (none, [])

def regionAst (a : RegionArgs) : SqlQuery × List SqlArg :=
  let pos := regionPos a
  let bin := regionBin a
  let ft := regionFt a
  let st := regionStrand a
  (.region { position := pos.1, bin := bin.1, ft := ft.1, strand := st.1 }, pos.2 ++ bin.2 ++ ft.2 ++ st.2)

/-- `count_features_of_type(featuretype)` -/
def countQuery (ft : Option Str) : SqlQuery × List SqlArg :=
  match ft with
  | some t => (.count true, [.text t])
  | none => (.count false, [])

end Sql
end GffModel
