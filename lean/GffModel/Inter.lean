/-
  GffModel.Inter — `FeatureDB.interfeatures` (interface.py L800-986) on a plain feature list, and
  `helpers.merge_attributes` (helpers.py L363-418) for list-valued attribute mappings
  (`constants.always_return_list = True`, the default; the other setting is defect D7).

  Not modelled: `attribute_func` (taken as `None`); the unused `dialect` parameter.

  `_init_interfeature` zips 11 keys with the 12-tuple of `astuple()`, so the dict's `"bin"` slot first
  holds the JSON text of `extra`, and `"attributes"` the JSON text of the attributes; both are
  overwritten before `_feature_returner` sees them on every path that is reachable (`nfeatures > 1`
  never holds at the seqid-change test, see `GffProofs.C15.nfeatures_one`).  The model keeps the parsed
  attributes there (JSON round trip, C17) and `none` in the `bin` slot.
-/
import GffModel.Feature

namespace GffModel
namespace Inter

/-! ### `helpers.merge_attributes` -/

/-- `sorted(set(v))` -/
def sortedSet (v : List Str) : List Str := sortStrs (dedup v)

/-- the value of a decimal literal `[+-]? digits [. digits*] | [+-]? . digits+` as (mantissa, number of
fraction digits): `m / 10^k`.  This is the part of Python's `float()` grammar that is modelled (exactly;
Python rounds to a double, which is monotone and exact up to 15 significant digits); exponents, `inf`,
`nan`, underscores and surrounding whitespace are outside the modelled domain. -/
def decKey (s : Str) : Option (Int × Nat) :=
  let (neg, body) := match s with
    | '-' :: r => (true, r)
    | '+' :: r => (false, r)
    | r => (false, r)
  let ip := body.takeWhile (· ≠ '.')
  let rest := body.dropWhile (· ≠ '.')
  let fp? : Option Str := match rest with
    | [] => some []
    | _ :: fr => if ip.isEmpty && fr.isEmpty then none else some fr
  match fp? with
  | none => none
  | some fp =>
    if ip.isEmpty && fp.isEmpty then none else
    let digits := ip ++ fp
    match (if digits.isEmpty then none else Str.parseNat? digits) with
    | none => none
    | some m => some (if neg then - (m : Int) else (m : Int), fp.length)

/-- `(float(a), a) <= (float(b), b)` for decimal keys -/
def numLe (a b : (Int × Nat) × Str) : Bool :=
  let l := a.1.1 * (10 : Int) ^ b.1.2
  let r := b.1.1 * (10 : Int) ^ a.1.2
  if l < r then true else if r < l then false else strLe a.2 b.2

/-- the `numeric_sort=True` branch for one key: numeric order when every value parses, else
`sorted(set(values))` -/
def numericSorted (v : List Str) : List Str :=
  let u := dedup v
  match u.mapM (fun s => (decKey s).map (fun k => (k, s))) with
  | some ks => (ks.mergeSort numLe).map (·.2)
  | none => sortStrs u

/-- `merge_attributes(attr1, attr2, numeric_sort)`: keys of the first, then the new keys of the second;
a shared key holds the second's values followed by the first's; then per key the duplicate-free sorted
list -/
def mergeAttributes (a1 a2 : Attrs) (numeric : Bool) : Attrs :=
  let newD := Dict.update a1 a2
  let ext : Attrs := newD.map (fun (k, v) =>
    if Dict.contains a2 k then
      match Dict.get? a1 k with
      | some v1 => (k, v ++ v1)
      | none => (k, v)
    else (k, v))
  ext.map (fun (k, v) => (k, if numeric then numericSorted v else sortedSet v))

/-! ### `interfeatures` -/

structure DbCfg where
  dialect : Dialect := Dialect.default
  keepOrder : Bool := false
  sortVals : Bool := false
  deriving Repr

structure Opts where
  newFtype : Option Str := none
  mergeAttrs : Bool := true
  numericSort : Bool := false
  /-- `update_attributes` (list-valued); `None` and `{}` behave alike -/
  update : Attrs := []
  deriving Repr

/-- the `interfeature` dict -/
structure IDict where
  id : Option Str
  seqid : Str
  source : Str
  ftype : Str
  start : Option Int
  stop : Option Int
  score : Str
  strand : Str
  frame : Str
  attrs : Attrs
  bin : Option Bins.BinResult
  deriving Repr

/-- `_init_interfeature(f)` -/
def initInter (f : Feature) : IDict :=
  { id := f.id, seqid := f.seqid, source := "gffutils_derived".toList, ftype := f.ftype, start := f.start,
    stop := f.stop, score := f.score, strand := f.strand, frame := f.frame, attrs := f.attrs, bin := none }

/-- "concat list of ID to create uniq IDs" -/
def joinIds (a : Attrs) : Attrs :=
  match Dict.get? a "ID".toList with
  | some v => if v.length > 1 then Dict.set a "ID".toList [Str.join ['-'] v] else a
  | none => a

/-- `_prep_for_yield(d)`: the dict is updated in place also when `None` is returned -/
def prepForYield (cfg : DbCfg) (d : IDict) : Py (IDict × Option Feature) :=
  match d.start, d.stop with
  | some s, some e =>
    let s := s + 1
    let e := e - 1
    let b := Bins.bins s e .gff true
    let d := { d with start := some s, stop := some e, bin := some b }
    if s > e then .ok (d, none)
    else .ok (d, some { seqid := d.seqid, source := d.source, ftype := d.ftype, start := some s, stop := some e,
                        score := d.score, strand := d.strand, frame := d.frame, attrs := joinIds d.attrs,
                        extra := [], bin := some b, id := d.id, dialect := cfg.dialect, fileOrder := none,
                        keepOrder := cfg.keepOrder, sortVals := cfg.sortVals })
  | _, _ => .error .type

/-- loop state after the first feature: the dict, `last_feature`, `nfeatures` -/
structure St where
  d : IDict
  last : Feature
  n : Nat
  deriving Repr

def optToList {α : Type} : Option α → List α
  | none => []
  | some a => [a]

/-- one iteration for `i > 0` -/
def step (cfg : DbCfg) (o : Opts) (st : St) (f : Feature) : Py (St × List Feature) :=
  if f.seqid ≠ st.last.seqid then
    if st.n > 1 then
      match prepForYield cfg st.d with
      | .error e => .error e
      | .ok (_, y) => .ok ({ d := initInter f, last := f, n := 1 }, optToList y)
    else .ok ({ d := initInter f, last := f, n := 1 }, [])
  else
    let newAttrs : Attrs := if o.mergeAttrs then mergeAttributes st.last.attrs f.attrs o.numericSort else []
    let newAttrs := if o.update.isEmpty then newAttrs else Dict.update newAttrs o.update
    let d : IDict := { st.d with
      start := st.last.stop, stop := f.start,
      ftype := match o.newFtype with
        | none => "inter_".toList ++ st.last.ftype ++ ['_'] ++ f.ftype
        | some t => t,
      strand := if st.last.strand ≠ f.strand then ['.'] else f.strand,
      attrs := newAttrs }
    match prepForYield cfg d with
    | .error e => .error e
    | .ok (d', y) => .ok ({ d := d', last := f, n := 1 }, optToList y)

def loop (cfg : DbCfg) (o : Opts) : St → List Feature → Py (List Feature)
  | _, [] => .ok []
  | st, f :: fs =>
    match step cfg o st f with
    | .error e => .error e
    | .ok (st', ys) =>
      match loop cfg o st' fs with
      | .error e => .error e
      | .ok zs => .ok (ys ++ zs)

/-- `list(db.interfeatures(features, new_featuretype, merge_attributes, numeric_sort, update_attributes=…))` -/
def interfeatures (cfg : DbCfg) (o : Opts) : List Feature → Py (List Feature)
  | [] => .ok []
  | f :: fs => loop cfg o { d := initInter f, last := f, n := 1 } fs

end Inter
end GffModel
