/-
  GffModel.ProtoAll — the registry of stateless protocol handlers.  Each component contributes
  `handler : List String → Option String` (`none` = "not my command").
-/
import GffModel.Proto
import GffModel.ProtoC17
import GffModel.ProtoMerge
import GffModel.ProtoIter
import GffModel.ProtoSql
import GffModel.ProtoWorld

namespace GffModel
namespace ProtoAll

def handlers : List (List String → Option String) :=
  [Proto.stepPure, ProtoC17.handler, ProtoMerge.handler, ProtoIter.handler, ProtoSql.handler, ProtoWorld.handler]

def step (ws : List String) : Option String :=
  handlers.findSome? (fun h => h ws)

end ProtoAll
end GffModel
