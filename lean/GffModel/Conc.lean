/-
  GffModel.Conc — the abstract concurrency model for property C20
  ("Concurrent imports are independent and leave no temp files").

  One `create_db` run, reduced to its interaction with state that other runs can see, is the
  sequential program

      mkstemp ; write ; read ; unlink ; writeOutput

  (create.py `_GFFDBCreator._update_relations` L675-734 and `_GTFDBCreator._update_relations`
  L862-1092: `tempfile.NamedTemporaryFile(delete=False)` → `open(name, "w")` → `open(name, "r")` →
  `os.unlink(name)`; the rows read back are inserted into the run's own output database).

  `N` such processes share ONE temp directory `tmpdir` (name ↦ content) whose initial content is
  arbitrary (other users' files).  A scheduler picks which process moves next; for `mkstemp` an
  adversary picks the name, and the only thing the OS promises (O_EXCL) is that the name is not
  present in the directory at that moment.  Outputs are separate files: the output path of process
  `i` is its index `i` in `outputs`.

  `stepG false` / `runUnsafe` is the same system WITHOUT the O_EXCL check (negative control).

  The second half is the trivial reader model for the last sentence of C20 (several sessions
  reading one finished database file).

  No Mathlib import: the file links into the native driver.
-/
import GffModel.Basic

namespace GffModel.Conc

/-! ### The import program -/

/-- The operations of one import that touch shared state. -/
inductive Op
  | mkstemp | write | read | unlink | writeOutput
  deriving DecidableEq, Repr

/-- The sequential program every import process runs. -/
def program : List Op := [.mkstemp, .write, .read, .unlink, .writeOutput]

/-- One import process.  `data` is the payload it derives from its own input (what it writes to its
intermediate file); `pc` indexes `program`; `tmp` is the name `mkstemp` returned (the Python variable
keeps it after `unlink`); `buf` is what it read back. -/
structure Proc where
  data : Str
  pc : Nat := 0
  tmp : Option Str := none
  buf : Option Str := none
  deriving DecidableEq, Repr

/-- The whole system: the processes, the shared temp directory, and one output slot per process
(`outputs[i]` is the output file of process `i`; `none` = not written yet). -/
structure Sys where
  procs : List Proc
  tmpdir : Dict Str
  outputs : List (Option Str)
  deriving DecidableEq, Repr

/-- `N = datas.length` fresh processes, process `i` with payload `datas[i]`, in a temp directory
that already contains `dir0`. -/
def init (datas : List Str) (dir0 : Dict Str) : Sys :=
  { procs := datas.map (fun d => { data := d }),
    tmpdir := dir0,
    outputs := datas.map (fun _ => none) }

/-- One step of process `i`; `pick` is the adversary's name, used only by `mkstemp`.
`none` = the step is not enabled (no such process, process finished, occupied `pick` under O_EXCL)
or the process crashes (`FileNotFoundError` on `read`/`unlink`, nothing to write).
With `safe = false` the O_EXCL check is dropped (negative control only). -/
def stepG (safe : Bool) (s : Sys) (i : Nat) (pick : Str) : Option Sys :=
  match s.procs[i]? with
  | none => none
  | some p =>
    match program[p.pc]? with
    | none => none
    | some .mkstemp =>
      -- O_CREAT|O_EXCL: refuse an existing name; the file is created empty.
      if safe && s.tmpdir.contains pick then none
      else some { s with procs := s.procs.set i { p with pc := p.pc + 1, tmp := some pick },
                         tmpdir := s.tmpdir.set pick [] }
    | some .write =>
      -- open(name, "w"): create or truncate, then write the payload.
      match p.tmp with
      | none => none
      | some n => some { s with procs := s.procs.set i { p with pc := p.pc + 1 },
                                tmpdir := s.tmpdir.set n p.data }
    | some .read =>
      -- open(name, "r").read(): FileNotFoundError when absent.
      match p.tmp with
      | none => none
      | some n =>
        match s.tmpdir.get? n with
        | none => none
        | some c => some { s with procs := s.procs.set i { p with pc := p.pc + 1, buf := some c } }
    | some .unlink =>
      -- os.unlink(name): FileNotFoundError when absent.
      match p.tmp with
      | none => none
      | some n =>
        if s.tmpdir.contains n then
          some { s with procs := s.procs.set i { p with pc := p.pc + 1 },
                        tmpdir := s.tmpdir.erase n }
        else none
    | some .writeOutput =>
      match p.buf with
      | none => none
      | some b => some { s with procs := s.procs.set i { p with pc := p.pc + 1 },
                                outputs := s.outputs.set i (some b) }

/-- A schedule is a list of `(process index, adversary's pick)`. -/
abbrev Schedule := List (Nat × Str)

def runG (safe : Bool) : Sys → Schedule → Option Sys
  | s, [] => some s
  | s, (i, pick) :: rest =>
    match stepG safe s i pick with
    | none => none
    | some s' => runG safe s' rest

/-- The real system: `mkstemp` honours O_EXCL. -/
def step : Sys → Nat → Str → Option Sys := stepG true
def run : Sys → Schedule → Option Sys := runG true

/-- Negative control: `mkstemp` may return a name that is already present. -/
def stepUnsafe : Sys → Nat → Str → Option Sys := stepG false
def runUnsafe : Sys → Schedule → Option Sys := runG false

/-- Every process has run its whole program. -/
def Sys.finished (s : Sys) : Bool := s.procs.all (fun p => p.pc == program.length)

/-! ### Observations used by the specification -/

/-- The name a process holds: the one `mkstemp` gave it, from after `mkstemp` until `unlink`. -/
def Proc.holding (p : Proc) : Option Str := if 1 ≤ p.pc ∧ p.pc ≤ 3 then p.tmp else none

/-- What a process's own intermediate file should contain while it holds it: empty right after
`mkstemp`, its payload after `write`. -/
def Proc.fileContent (p : Proc) : Str := if p.pc = 1 then [] else p.data

/-- The intermediate files currently owned by the processes, in process order. -/
def heldFiles (procs : List Proc) : Dict Str :=
  procs.filterMap (fun p => p.holding.map (fun n => (n, p.fileContent)))

/-! ### Readers of one finished database file -/

/-- A read-only session: a cursor into the file and everything it has read so far. -/
structure Reader where
  pos : Nat := 0
  buf : Str := []
  deriving DecidableEq, Repr

/-- One finished database file and `n` sessions reading it.  No operation of the reader model
assigns `file`: that is the classification "reads do not write" (C19). -/
structure RSys where
  file : Str
  readers : List Reader
  deriving DecidableEq, Repr

def rinit (file : Str) (n : Nat) : RSys := { file := file, readers := List.replicate n {} }

/-- Reader `i` does `read(chunk)`: it gets the next at most `chunk` characters after its cursor and
advances by what it got.  The file is left unchanged. -/
def rstep (s : RSys) (i : Nat) (chunk : Nat) : Option RSys :=
  match s.readers[i]? with
  | none => none
  | some r =>
    let got := (s.file.drop r.pos).take chunk
    some { s with readers := s.readers.set i { pos := r.pos + got.length, buf := r.buf ++ got } }

def rrun : RSys → List (Nat × Nat) → Option RSys
  | s, [] => some s
  | s, (i, chunk) :: rest =>
    match rstep s i chunk with
    | none => none
    | some s' => rrun s' rest

end GffModel.Conc
