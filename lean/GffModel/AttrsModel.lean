/-
  GffModel.AttrsModel — `attributes.Attributes` (attributes.py L12-98), the attribute access of
  `feature.Feature` (`__getitem__/__setitem__` L244-256, `__eq__/__ne__/__hash__` L290-297) and
  `helpers.merge_attributes` (helpers.py L363-418).

  A Python value that can be put under an attribute key is a `PyVal`: a `str`, a `list` of `str` or a
  `tuple` of `str`.  The state of an `Attributes` object is its `_d`, an insertion-ordered dict of
  `PyVal`; every value stored through `__setitem__` is a list or a tuple (`Attributes.set` wraps
  everything else), what `__getitem__` hands out depends on `constants.always_return_list`
  (`Attributes.view`).
-/
import GffModel.Basic
import GffModel.Feature

namespace GffModel

/-- what a caller can bind to an attribute key -/
inductive PyVal
  | scalar (s : Str)
  | list (l : List Str)
  | tuple (l : List Str)
  deriving DecidableEq, Repr

namespace PyVal

/-- `if not isinstance(v, (list, tuple)): v = [v]` -/
def wrap : PyVal → PyVal
  | .scalar s => .list [s]
  | v => v

/-- `isinstance(v, (list, tuple))` -/
def isSeq : PyVal → Bool
  | .scalar _ => false
  | _ => true

/-- `isinstance(v, list)` -/
def isList : PyVal → Bool
  | .list _ => true
  | _ => false

def noTuple : PyVal → Bool
  | .tuple _ => false
  | _ => true

/-- the strings of the value, as a sequence (a scalar counts as one string) -/
def toList : PyVal → List Str
  | .scalar s => [s]
  | .list l => l
  | .tuple l => l

end PyVal

/-- the `_d` of an `Attributes` object -/
abbrev Attributes := Dict PyVal

namespace Attributes

/-- `Attributes.__setitem__` (L56-59) -/
def set (a : Attributes) (k : Str) (v : PyVal) : Attributes := Dict.set a k v.wrap

/-- the switch of `Attributes.__getitem__` (L61-67) applied to a stored value: only a *list* of
length one is unwrapped, and only when `always_return_list` is off -/
def view (alwaysList : Bool) : PyVal → PyVal
  | .list [x] => if alwaysList then .list [x] else .scalar x
  | v => v

/-- `Attributes.__getitem__`: `KeyError` for a missing key -/
def get (a : Attributes) (alwaysList : Bool) (k : Str) : Py PyVal :=
  match Dict.get? a k with
  | some v => .ok (view alwaysList v)
  | none => .error .key

def keys (a : Attributes) : List Str := Dict.keys a

/-- `Attributes.items()` (L87-91): through `__getitem__` -/
def items (a : Attributes) (alwaysList : Bool) : List (Str × PyVal) :=
  a.map (fun p => (p.1, view alwaysList p.2))

/-- `Attributes.values()` (L84-85) -/
def values (a : Attributes) (alwaysList : Bool) : List PyVal :=
  a.map (fun p => view alwaysList p.2)

/-- `Attributes.update(d)` for a plain dict `d` (L96-98): `for k, v in dict(d).items(): self[k] = v` -/
def update (a : Attributes) (e : Dict PyVal) : Attributes :=
  e.foldl (fun d p => set d p.1 p.2) a

/-- `Attributes(d)` -/
def ofDict (e : Dict PyVal) : Attributes := update [] e

/-- `Attributes.update(other)` for another `Attributes` object: `dict(other)` reads `other` through
`keys()` + `__getitem__`, i.e. through the view -/
def updateFrom (a e : Attributes) (alwaysList : Bool) : Attributes :=
  update a (items e alwaysList)

/-- `Attributes.__delitem__` -/
def del (a : Attributes) (k : Str) : Py Attributes :=
  if Dict.contains a k then .ok (Dict.erase a k) else .error .key

/-- every stored value is a list or a tuple -/
def WF (a : Attributes) : Prop := ∀ p ∈ a, p.2.isSeq = true

/-- forget list/tuple: the attribute mapping of the `Feature` model -/
def lower (a : Attributes) : Attrs := a.map (fun p => (p.1, p.2.toList))

/-- an attribute mapping of the `Feature` model as an `Attributes` store (everything is a list) -/
def lift (a : Attrs) : Attributes := a.map (fun p => (p.1, PyVal.list p.2))

end Attributes

/-! ### Feature-level access (`feature[key]`, `feature[key] = v` for a string key) -/

namespace Feature

/-- `Feature.__setitem__` with a string key: `self.attributes[key] = value`.  The `Feature` model keeps
the strings of the value (it does not distinguish a stored tuple from a stored list). -/
def setItem (f : Feature) (k : Str) (v : PyVal) : Feature :=
  { f with attrs := Dict.set f.attrs k v.toList }

/-- `Feature.__getitem__` with a string key -/
def getItem (f : Feature) (alwaysList : Bool) (k : Str) : Py PyVal :=
  Attributes.get (Attributes.lift f.attrs) alwaysList k

/-- `Feature.__eq__`: `str(self) == str(other)` (an exception of `str` propagates) -/
def pyEq (f g : Feature) : Py Bool := do
  let a ← f.print
  let b ← g.print
  pure (decide (a = b))

/-- `Feature.__ne__`: `str(self) != str(other)` -/
def pyNe (f g : Feature) : Py Bool := do
  let a ← f.print
  let b ← g.print
  pure (decide (a ≠ b))

/-- `Feature.__hash__`: `hash(str(self))` for Python's string hash `h` (any function of the text) -/
def pyHash (h : Str → Int) (f : Feature) : Py Int := do
  let a ← f.print
  pure (h a)

end Feature

/-! ### `float()` on the decimal grammar, for `numeric_sort`

`float(s)` is modelled on `-?[0-9]+(\.[0-9]+)?` **with at most 15 digits in total**: such a decimal has at
most 15 significant digits, so distinct values are distinct doubles in the same order (DBL_DIG = 15,
correctly rounded conversion) and comparing the doubles is comparing the exact rationals.  (The looser
grammar `-?[0-9]{1,15}(\.[0-9]{1,15})?` would be unsound: `float("-100.000000000000001") ==
float("-100.000000000000002")`, Python then orders the pair by the strings, the rationals order it the other
way round.)  The value is returned scaled by `10^15`, an exact integer.  Everything else is *not a number*
for the model; Python's `float` accepts more (`inf`, `nan`, exponents, `_`, a leading `+`, `.5`, `5.`,
surrounding whitespace, non-ASCII digits, longer digit strings): those inputs are unmodelled and the
harness keeps them out. -/

def isDigit (c : Char) : Bool := decide ('0' ≤ c ∧ c ≤ '9')

def decKeyAbs? (s : Str) : Option Int :=
  let ip := s.takeWhile isDigit
  let rest := s.dropWhile isDigit
  if ip.isEmpty then none else
  match rest with
  | [] => if ip.length ≤ 15 then (Str.parseNat? ip).map (fun n => (n : Int) * 10 ^ 15) else none
  | c :: fp =>
    if c = '.' ∧ !fp.isEmpty ∧ fp.all isDigit ∧ ip.length + fp.length ≤ 15 then
      (Str.parseNat? (ip ++ fp)).map (fun n => (n : Int) * 10 ^ (15 - fp.length))
    else none

/-- the value of a decimal of the grammar, times `10^15` -/
def decKey? (s : Str) : Option Int :=
  match s with
  | '-' :: ds => (decKeyAbs? ds).map (fun k => -k)
  | ds => decKeyAbs? ds

/-- Python's order on `(float(v), v)` tuples -/
def numLe (a b : Int × Str) : Bool := decide (a.1 < b.1) || (decide (a.1 = b.1) && strLe a.2 b.2)

/-- `[i[1] for i in sorted([(float(v), v) for v in vs])]`; `none` = `ValueError` -/
def sortNumeric (vs : List Str) : Option (List Str) := do
  let ks ← vs.mapM (fun s => (decKey? s).map (fun k => (k, s)))
  pure ((ks.mergeSort numLe).map (·.2))

/-- the last step of `merge_attributes` for one key: `sorted(set(values))`, or the numeric variant with its
`except ValueError` fallback.  `set` is modelled by `dedup`; the sorted result does not depend on the
iteration order of the set because the elements are distinct and the order is total. -/
def finalSort (numericSort : Bool) (vs : List Str) : List Str :=
  let u := dedup vs
  if numericSort then
    match sortNumeric u with
    | some r => r
    | none => sortStrs u
  else sortStrs u

/-! ### `helpers.merge_attributes` -/

/-- which Python class an argument of `merge_attributes` is -/
inductive Kind
  | dict    -- a plain `dict`
  | attrs   -- an `attributes.Attributes`
  deriving DecidableEq, Repr

/-- what reading a value out of the mapping yields (`m[k]`, `m.items()`, `dict(m)`): the raw value for
a `dict`, the `always_return_list` view for an `Attributes` -/
def readVal (kind : Kind) (view : Bool) (v : PyVal) : PyVal :=
  match kind with
  | .dict => v
  | .attrs => Attributes.view view v

def readItems (kind : Kind) (view : Bool) (d : Dict PyVal) : List (Str × PyVal) :=
  d.map (fun p => (p.1, readVal kind view p.2))

/-- `m[k] = v` -/
def writeItem (kind : Kind) (d : Dict PyVal) (k : Str) (v : PyVal) : Dict PyVal :=
  match kind with
  | .dict => Dict.set d k v
  | .attrs => Attributes.set d k v

/-- `set(v)` of what `new_d.items()` hands out: the elements of a list — or the *characters* of a string
(which is what the code gets from an `Attributes` whose view unwraps one-item lists) -/
def elemsOf : PyVal → List Str
  | .scalar s => s.map (fun c => [c])
  | .list l => l
  | .tuple l => l

/-- L381-382 `new_d = copy.deepcopy(attr1); new_d.update(copy.deepcopy(attr2))`: `new_d` has the class of
`attr1`; `update` reads `attr2` through `readItems` (`dict(attr2)` resp. `keys()` + `__getitem__`) and
writes through `writeItem` -/
def mergeUpdate (k1 k2 : Kind) (view : Bool) (a1 a2 : Dict PyVal) : Dict PyVal :=
  (readItems k2 view a2).foldl (fun d p => writeItem k1 d p.1 p.2) a1

/-- L385-387 `for k, v in new_d.items(): if not isinstance(v, list): new_d[k] = [v]` (one iteration) -/
def mergeWrapStep (k1 : Kind) (d : Dict PyVal) (p : Str × PyVal) : Dict PyVal :=
  match p.2 with
  | .scalar s => writeItem k1 d p.1 (.list [s])
  | _ => d

def mergeWrap (k1 : Kind) (view : Bool) (d : Dict PyVal) : Dict PyVal :=
  (readItems k1 view d).foldl (mergeWrapStep k1) d

/-- L389-393 `for k, v in attr1.items(): if k in attr2: (wrap v); new_d[k].extend(v)` (one iteration):
`new_d[k]` is read through `readVal`; a list is extended in place (it is the stored object), anything
else has no `extend` — `AttributeError` -/
def mergeExtendStep (k1 : Kind) (view : Bool) (a2 : Dict PyVal) (d : Dict PyVal) (p : Str × PyVal) :
    Py (Dict PyVal) :=
  if Dict.contains a2 p.1 then
    match Dict.get? d p.1 with
    | none => .error .key
    | some stored =>
      match readVal k1 view stored with
      | .list l => .ok (Dict.set d p.1 (.list (l ++ p.2.toList)))
      | _ => .error .attribute
  else .ok d

def mergeExtend (k1 : Kind) (view : Bool) (a1 a2 : Dict PyVal) (d : Dict PyVal) : Py (Dict PyVal) :=
  (readItems k1 view a1).foldlM (mergeExtendStep k1 view a2) d

/-- L394-417 `dict((k, sorted(set(v))) for k, v in new_d.items())` / the `numeric_sort` loop -/
def mergeFinal (k1 : Kind) (view numericSort : Bool) (d : Dict PyVal) : Attrs :=
  (readItems k1 view d).map (fun p => (p.1, finalSort numericSort (elemsOf p.2)))

/-- `helpers.merge_attributes(attr1, attr2, numeric_sort)` (L363-418), line by line, for arguments of
the given classes, with `view` = the value of `constants.always_return_list` that the reads inside the
function see.

Values that are tuples are outside the model (`.error .other`): Python then builds lists that contain
tuple objects, which `Attrs` cannot represent. -/
def mergeAttributesWith (k1 k2 : Kind) (a1 a2 : Dict PyVal) (numericSort view : Bool) : Py Attrs :=
  if !(a1.all (fun p => p.2.noTuple) && a2.all (fun p => p.2.noTuple)) then .error .other else do
    let newD ← mergeExtend k1 view a1 a2 (mergeWrap k1 view (mergeUpdate k1 k2 view a1 a2))
    pure (mergeFinal k1 view numericSort newD)

/-- The value of `always_return_list` that the body of `merge_attributes` works under, given the
caller's setting.  **Current tree:** the caller's setting (defect D7).  After the repair that pins
`always_return_list = True` inside `merge_attributes` this definition becomes `fun _ => true`; nothing
else in the model or in the theorems changes. -/
def mergeEffectiveView (_alwaysList : Bool) : Bool := true   -- pinned by `merge_attributes` since the repair of D7

/-- `helpers.merge_attributes` as the tree has it -/
def mergeAttributes (k1 k2 : Kind) (a1 a2 : Dict PyVal) (numericSort alwaysList : Bool) : Py Attrs :=
  mergeAttributesWith k1 k2 a1 a2 numericSort (mergeEffectiveView alwaysList)

/-- `helpers.merge_attributes` with the setting pinned (the repaired behaviour) -/
def mergeAttributesFixed (k1 k2 : Kind) (a1 a2 : Dict PyVal) (numericSort : Bool) : Py Attrs :=
  mergeAttributesWith k1 k2 a1 a2 numericSort true

end GffModel
