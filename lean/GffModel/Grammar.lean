/-
  GffModel.Grammar — the writer side of the grammar that C07 / C09 / C01 quantify over: a line
  specification, its rendering to text (independent of `Parser.reconstruct`), and the decidable
  well-formedness predicate under which the theorems are stated (DESIGN.md §3 C07).
-/
import GffModel.Feature

namespace GffModel
namespace Grammar

/-- key/value style of the attribute column -/
inductive KvStyle | eq | space
  deriving DecidableEq, Repr

structure AttrItem where
  key : Str
  vals : List Str            -- decoded values; `[]` = valueless flag
  deriving DecidableEq, Repr

structure LineSpec where
  cols : List Str            -- the eight fixed columns
  sep : Str                  -- `;` | `; ` | ` ; `
  trailing : Bool
  style : KvStyle
  quoted : Bool
  repeated : Bool
  attrs : List AttrItem
  extra : List Str
  deriving DecidableEq, Repr

/-- the format gffutils assigns: `gtf` exactly for the quoted `key "value"` style -/
def LineSpec.fmt (s : LineSpec) : Str :=
  if s.style = .space ∧ s.quoted then Parser.gtf else Parser.gff3

def LineSpec.kvSep (s : LineSpec) : Str := match s.style with | .eq => ['='] | .space => [' ']

/-- values are percent-encoded exactly when the format is gff3 -/
def LineSpec.encVal (s : LineSpec) (v : Str) : Str :=
  if s.fmt = Parser.gff3 then Quote.quoteStr v else v

def wrapQ (s : LineSpec) (t : Str) : Str := if s.quoted then '"' :: t ++ ['"'] else t

/-- the parts one attribute item is written as -/
def renderItem (s : LineSpec) (it : AttrItem) : List Str :=
  match it.vals with
  | [] => if s.fmt = Parser.gtf then [it.key ++ s.kvSep ++ ['"', '"']] else [it.key]
  | vals =>
    if s.repeated ∧ vals.length > 1 then
      vals.map (fun v => it.key ++ s.kvSep ++ wrapQ s (s.encVal v))
    else [it.key ++ s.kvSep ++ wrapQ s (Str.join [','] (vals.map s.encVal))]

def renderAttrs (s : LineSpec) : Str :=
  if s.attrs.isEmpty then [] else
  let body := Str.join s.sep (s.attrs.flatMap (renderItem s))
  if s.trailing then body ++ [';'] else body

def renderLine (s : LineSpec) : Str :=
  Str.join ['\t'] (s.cols ++ [renderAttrs s] ++ s.extra)

/-- the same line with the nine columns separated by single spaces (for `strict=False`) -/
def renderWithSpaces (s : LineSpec) : Str :=
  Str.join [' '] (s.cols ++ [renderAttrs s])

/-- the dialect the line is written in (what inference must recover) -/
def LineSpec.dialect (s : LineSpec) : Dialect :=
  if s.attrs.isEmpty then Dialect.default else
  { leadingSemicolon := false, trailingSemicolon := s.trailing, quoted := s.quoted, fieldSep := s.sep,
    kvSep := s.kvSep, multiSep := [','], fmt := s.fmt, repeatedKeys := s.repeated,
    order := s.attrs.flatMap (fun it =>
      if s.repeated ∧ it.vals.length > 1 then it.vals.map (fun _ => it.key) else [it.key]) }

/-- the mapping the parser must return -/
def LineSpec.mapping (s : LineSpec) : Attrs := s.attrs.map (fun it => (it.key, it.vals))

/-! ### well-formedness -/

def canonInt (c : Str) : Bool :=
  match Str.parseInt? c with
  | some i => Str.intToStr i == c
  | none => false

def noneOf (bad : List Char) (s : Str) : Bool := s.all (fun c => !bad.contains c)

def colOk (c : Str) : Bool := noneOf ['\t', '\r', '\n'] c

def keyOk (_s : LineSpec) (k : Str) : Bool :=
  !k.isEmpty && noneOf [';', '=', ' ', '\t', '"', '\r', '\n', ','] k && !(k.head?.map Str.isPySpace).getD false
    && !(k.getLast?.map Str.isPySpace).getD false

def valOk (s : LineSpec) (v : Str) : Bool :=
  !v.isEmpty && v.head? != some ' ' && v.getLast? != some ' ' && noneOf ['\t', '\r', '\n'] (s.encVal v) &&
  (if s.fmt = Parser.gff3 then true else noneOf [';', ',', '"'] v) &&
  (if s.style = .space ∧ ¬ s.quoted then !(v.getLast?.map Str.isPySpace).getD false else true)

/-- in an unquoted style the written value text of an item must not look quoted -/
def itemTextOk (s : LineSpec) (it : AttrItem) : Bool :=
  s.quoted || (renderItem { s with quoted := false } it).all (fun p =>
    let t := p.drop (it.key.length + s.kvSep.length)
    !(t.head? == some '"' && t.getLast? == some '"'))

def LineSpec.WF (s : LineSpec) : Bool :=
  s.cols.length == 8 && s.cols.all colOk && s.extra.all colOk &&
  ((s.cols[3]?).getD [] == ['.'] || canonInt ((s.cols[3]?).getD [])) &&
  ((s.cols[4]?).getD [] == ['.'] || canonInt ((s.cols[4]?).getD [])) &&
  (s.sep == [';'] || s.sep == [';', ' '] || s.sep == [' ', ';', ' ']) &&
  s.attrs.all (fun it => keyOk s it.key && it.vals.all (valOk s) && itemTextOk s it) &&
  (s.attrs.map (·.key)).Nodup &&
  -- the first key decides gff3 vs gff2 in the inference: all word characters for `k=v`
  (match s.style, s.attrs with
    | .eq, it :: _ => it.key.all isWordChar
    | _, _ => true) &&
  -- unobservable dimensions take their defaults
  (if s.attrs.isEmpty then s.sep == [';'] && !s.trailing && s.style == .eq && !s.quoted && !s.repeated else true) &&
  (if (s.attrs.flatMap (renderItem s)).length < 2 then s.sep == [';'] else true) &&
  (if s.repeated then s.attrs.any (fun it => it.vals.length > 1) else true) &&
  (if s.quoted then s.attrs.any (fun it => !it.vals.isEmpty) || s.style == .space else true) &&
  -- `flag;ID=a` is taken for the space style: in the `k=v` style the first item carries a value
  (match s.style, s.attrs with
    | .eq, it :: _ => !it.vals.isEmpty
    | _, _ => true)

/-- additional conditions for the `strict=False` space rendering: nine columns, no blanks inside
columns 1–8, no line-break character anywhere, attribute column not ending in whitespace -/
def LineSpec.WFspaces (s : LineSpec) : Bool :=
  s.WF && s.extra.isEmpty &&
  s.cols.all (fun c => !c.isEmpty && c.all (fun ch => !Str.isPySpace ch && !Str.isLineBreak ch)) &&
  (renderAttrs s).all (fun ch => !Str.isLineBreak ch) &&
  !(((renderAttrs s).getLast?.map Str.isPySpace).getD false) &&
  !(((renderAttrs s).head?.map Str.isPySpace).getD false)

end Grammar
end GffModel
