/-
  GffModel.World — the file system as far as properties C10 / C19 need it: a map from paths to
  database-file contents, `create_db(path, force=…)`, the `.bak` copy of `make_backup=True`, and a
  small state machine `step` applying `FeatureDB` operations to an open database *file*.

  This file only ADDS definitions on top of `Interface.lean` / `Create.lean` (no existing definition
  changes).  What is modelled and what is not:

  * A database file is its `Db` value.  An open `FeatureDB` on `path` is a `Conn`: the world, the
    path, and the `Session`.  Every successful write stores the session's new `db` back into the file.
  * `make_backup=True` (`interface.py` L1007-1009, L1079-1081): `shutil.copy2(dbfn, dbfn + ".bak")`
    runs BEFORE the write starts; a write that then fails leaves that copy in place.
  * A feature source failing at position `i` (`failAt = some i`): the importer runs on the first `i`
    features and then the source's exception propagates; the step is a failure in any case.
  * The persistent effect of a FAILED `update` (and of a failed import in `create_db`) is NOT
    specified: the uncommitted rows live in a second sqlite connection and when they disappear is
    sqlite / garbage-collector behaviour.  The model keeps it abstract: `step` takes an oracle
    `residue : Session → Op → Session` that supplies the post-failure session (its `db` becomes the
    file content), and `World.createDb` takes the post-failure file content as an argument.  Every
    theorem quantifies over ALL oracles, i.e. holds whatever a failed write leaves behind.
  * A failed `add_relation` writes nothing (both look-ups precede the single `INSERT`, and a
    rejected `INSERT` changes no row): the pre-state is kept.  `delete` cannot fail in the model.
  * Read-style operations return their result and leave world, path and session as they are.
-/
import GffModel.Interface

namespace GffModel

/-- path ↦ content of the database file -/
structure World where
  files : Dict Db := []

namespace World
open Interface

/-- `dbfn + ".bak"` -/
def bakPath (path : Str) : Str := path ++ ".bak".toList

def read (w : World) (path : Str) : Option Db := w.files.get? path

def write (w : World) (path : Str) (db : Db) : World := { w with files := Dict.set w.files path db }

/-- `shutil.copy2(path, path + ".bak")` (a missing source file is outside the domain: no copy) -/
def backup (w : World) (path : Str) : World :=
  match w.read path with
  | some db => w.write (bakPath path) db
  | none => w

/-- `gffutils.create_db(data, dbfn=path, force=force, …)`.

An occupied path without `force`: `_init_tables` fails with `sqlite3.OperationalError` ("table
features already exists") before any row is written — the world is unchanged.  Otherwise (`force`
unlinks the old file first) the file becomes the import of the new input ALONE: `Create.createDb`
starts from the empty database and does not see the world.  If that import fails the file content
is `residue` (not specified, see the header). -/
def createDb (w : World) (path : Str) (force : Bool) (imp : Create.Importer) (cfg : Create.Cfg)
    (directives : List Str) (fs : List Feature) (residue : Db := {}) : World × Py Unit :=
  if (w.read path).isSome && !force then (w, .error .operational)
  else
    match Create.createDb imp cfg directives fs with
    | .ok db => (w.write path db, .ok ())
    | .error e => (w.write path residue, .error e)

/-- an open `FeatureDB(path)` -/
structure Conn where
  world : World
  path : Str
  sess : Session

/-- the `FeatureDB` operations of properties C10 / C19 -/
inductive Op
  -- writes
  | update (cfg : Create.Cfg) (fs : List Feature) (failAt : Option Nat) (backup : Bool)
  | delete (ids : List Str) (backup : Bool)
  | addRelation (parent child : Str) (level : Int)
  | reopen
  -- read-style
  | get (key : Str)
  | query (q : Query)
  | relation (isChildren : Bool) (id : Str) (level : Option Int) (q : Query)
  | region (a : RegionArgs)
  | count (ft : Option Str)
  | featuretypes
  | seqids

/-- the classification of property C19 -/
def Op.isRead : Op → Bool
  | .update .. | .delete .. | .addRelation .. | .reopen => false
  | _ => true

/-- does the operation take the `.bak` copy first -/
def Op.makesBackup : Op → Bool
  | .update _ _ _ b => b
  | .delete _ b => b
  | _ => false

/-- what the caller sees -/
inductive Out
  | unit
  | feature (f : Feature)
  | rows (rs : List Row)
  | nat (n : Nat)
  | strs (l : List Str)
  | error (e : PyErr)

def Out.isError : Out → Bool
  | .error _ => true
  | _ => false

/-- the session's new state reaches the file -/
def Conn.commit (c : Conn) (s : Session) : Conn :=
  { c with world := c.world.write c.path s.db, sess := s }

/-- the `.bak` copy, when asked for -/
def Conn.backupIf (c : Conn) (b : Bool) : Conn :=
  if b then { c with world := c.world.backup c.path } else c

/-- one operation on an open database file.  `residue` supplies the (unspecified) session left
behind by a failed `update`. -/
def step (residue : Session → Op → Session) (c : Conn) (op : Op) : Conn × Out :=
  match op with
  | .update cfg fs failAt b =>
    let c1 := c.backupIf b
    match failAt with
    | none =>
      match Interface.update c.sess cfg fs with
      | .ok s' => (c1.commit s', .unit)
      | .error e => (c1.commit (residue c.sess op), .error e)
    | some i =>
      -- the source yields `fs.take i`, then raises
      let e := match Interface.update c.sess cfg (fs.take i) with
        | .ok _ => PyErr.other
        | .error e => e
      (c1.commit (residue c.sess op), .error e)
  | .delete ids b =>
    let c1 := c.backupIf b
    (c1.commit (Interface.delete c.sess ids), .unit)
  | .addRelation p ch l =>
    match Interface.addRelation c.sess p ch l with
    | .ok s' => (c.commit s', .unit)
    | .error e => (c, .error e)
  | .reopen =>
    match c.world.read c.path with
    | none => (c, .error .operational)
    | some db =>
      match openDb db c.sess.keepOrder c.sess.sortVals with
      | .ok s' => ({ c with sess := s' }, .unit)
      | .error e => (c, .error e)
  | .get key =>
    match getItem c.sess key with
    | .ok f => (c, .feature f)
    | .error e => (c, .error e)
  | .query q => (c, .rows (runQuery c.sess q))
  | .relation isCh id level q => (c, .rows (runRelation c.sess isCh id level q))
  | .region a => (c, .rows (Interface.region c.sess a))
  | .count ft => (c, .nat (countFeatures c.sess ft))
  | .featuretypes => (c, .strs (Interface.featuretypes c.sess))
  | .seqids => (c, .strs (Interface.seqids c.sess))

/-- a history -/
def run (residue : Session → Op → Session) (c : Conn) : List Op → Conn
  | [] => c
  | op :: rest => run residue (step residue c op).1 rest

/-- `FeatureDB(path)` on a world -/
def connect (w : World) (path : Str) (keepOrder sortVals : Bool := false) : Py Conn :=
  match w.read path with
  | none => .error .operational
  | some db => (openDb db keepOrder sortVals).map (fun s => { world := w, path := path, sess := s })

end World
end GffModel
