/-
  GffModel.Proto — the line protocol of the correspondence driver (DESIGN.md §2.3).
  One command per line, one reply line per command.  Strings travel as dot-joined hexadecimal code
  points (`-` = empty string, `~` = None).  Lists: `_` or `,`-joined.  Attribute mappings: `_` or
  `;`-joined `key=list`.  Dialects: `|`-joined fields.  Anything unparsable yields `bad-op` — never a
  default.
-/
import GffModel.Str
import GffModel.Bins
import GffModel.Helpers
import GffModel.Grammar
import GffModel.Iter

namespace GffModel
namespace Proto

def words (line : String) : List String :=
  (line.splitOn " ").filter (· ≠ "")

def parseIntW (w : String) : Option Int := Str.parseInt? w.toList

def parseFmt : String → Option Bins.CoordFmt
  | "gff" => some .gff
  | "bed" => some .bed
  | _ => none

def parseBool : String → Option Bool
  | "1" => some true
  | "0" => some false
  | _ => none

def encBool (b : Bool) : String := if b then "1" else "0"

def encList (l : List Str) : String :=
  if l.isEmpty then "_" else ",".intercalate (l.map Str.encode)

def decList? (w : String) : Option (List Str) :=
  if w = "_" then some [] else (w.splitOn ",").mapM Str.decode?

def encAttrs (a : Attrs) : String :=
  if a.isEmpty then "_" else ";".intercalate (a.map (fun (k, v) => Str.encode k ++ "=" ++ encList v))

def decAttrs? (w : String) : Option Attrs :=
  if w = "_" then some [] else
  (w.splitOn ";").mapM (fun item =>
    match item.splitOn "=" with
    | [k, v] => do pure ((← Str.decode? k), (← decList? v))
    | _ => none)

def encDialect (d : Dialect) : String :=
  "|".intercalate [encBool d.leadingSemicolon, encBool d.trailingSemicolon, encBool d.quoted,
    Str.encode d.fieldSep, Str.encode d.kvSep, Str.encode d.multiSep, Str.encode d.fmt,
    encBool d.repeatedKeys, encList d.order]

def decDialect? (w : String) : Option Dialect :=
  match w.splitOn "|" with
  | [l, t, q, fs, kv, ms, fmt, r, o] => do
    pure { leadingSemicolon := ← parseBool l, trailingSemicolon := ← parseBool t, quoted := ← parseBool q,
           fieldSep := ← Str.decode? fs, kvSep := ← Str.decode? kv, multiSep := ← Str.decode? ms,
           fmt := ← Str.decode? fmt, repeatedKeys := ← parseBool r, order := ← decList? o }
  | _ => none

/-- `none` or a dialect -/
def decOptDialect? (w : String) : Option (Option Dialect) :=
  if w = "none" then some none else (decDialect? w).map some

def encErr (e : PyErr) : String := "err " ++ e.name

def encOptInt : Option Int → String
  | none => "~"
  | some i => toString i

def encBin : Option Bins.BinResult → String
  | none => "~"
  | some (.int b) => toString b
  | some (.set _) => "set"

def consts : String :=
  s!"consts first_shift={Bins.firstShift} next_shift={Bins.nextShift} offsets={Bins.offsets} max_chrom={Bins.maxChrom} off_gff={Bins.CoordFmt.gff.off} off_bed={Bins.CoordFmt.bed.off}"

def constsParser : String :=
  let q := (List.range 128).filter (fun n => Quote.toQuote (Char.ofNat n))
  s!"consts to_quote={q} dialect={encDialect Dialect.default}"

def encFeature (f : Feature) (ignoreEsc : Bool) : String :=
  let printed := match f.print ignoreEsc with
    | .ok s => Str.encode s
    | .error e => "!" ++ e.name
  " ".intercalate [Str.encode f.seqid, Str.encode f.source, Str.encode f.ftype, encOptInt f.start,
    encOptInt f.stop, Str.encode f.score, Str.encode f.strand, Str.encode f.frame, encAttrs f.attrs,
    encList f.extra, encBin f.bin, encDialect f.dialect, printed]

def bits (p : Char → Bool) (s : Str) : String := String.ofList (s.map (fun c => if p c then '1' else '0'))

/-- `choose` arguments: pairs `<dialect> <keys>` -/
def decChoose? : List String → Option (List (Dialect × List Str))
  | [] => some []
  | d :: k :: rest => do
    let d ← decDialect? d
    let k ← decList? k
    let r ← decChoose? rest
    pure ((d, k) :: r)
  | _ => none

/-- a line specification: `<cols-list> <sep> <trailing> <eq|space> <quoted> <repeated> <attrs> <extra-list>` -/
def decSpec? : List String → Option Grammar.LineSpec
  | [cols, sep, tr, style, q, rep, attrs, extra] => do
    let style ← match style with | "eq" => some Grammar.KvStyle.eq | "space" => some .space | _ => none
    let a ← decAttrs? attrs
    pure { cols := ← decList? cols, sep := ← Str.decode? sep, trailing := ← parseBool tr, style := style,
           quoted := ← parseBool q, repeated := ← parseBool rep,
           attrs := a.map (fun (k, v) => { key := k, vals := v }), extra := ← decList? extra }
  | _ => none

/-- the transform zoo shared with the harness (harness/transforms.py) -/
def transformOf : String → Option (Option (Feature → Option Feature))
  | "none" => some none
  | "id" => some (some (fun f => some f))
  | "dropexon" => some (some (fun f => if f.ftype = "exon".toList then none else some f))
  | "mut" => some (some (fun f => some { f with source := "tr".toList, attrs := Dict.set f.attrs "tr".toList ["1".toList] }))
  | "dropmut" => some (some (fun f =>
      if f.ftype = "exon".toList then none
      else some { f with source := "tr".toList, attrs := Dict.set f.attrs "tr".toList ["1".toList] }))
  | "dropall" => some (some (fun _ => none))
  | _ => none

def encFeatures (fs : List Feature) : String :=
  if fs.isEmpty then "_" else " / ".intercalate (fs.map (encFeature · false))

/-- stateless commands -/
def stepPure (ws : List String) : Option String :=
  match ws with
  | ["consts"] => some consts
  | ["consts-parser"] => some constsParser
  | ["bins", s, e, f, o] => do
      let s ← parseIntW s; let e ← parseIntW e; let f ← parseFmt f; let o ← parseBool o
      pure (Bins.bins s e f o).render
  | ["split", d, s, ie] => do
      let d ← decOptDialect? d; let s ← Str.decode? s; let ie ← parseBool ie
      match Parser.splitKeyvals s d ie with
      | .ok (a, d') => pure s!"ok {encAttrs a} {encDialect d'}"
      | .error e => pure (encErr e)
  | ["recon", d, a, keep, sort, ie] => do
      let d ← decOptDialect? d; let a ← decAttrs? a
      let keep ← parseBool keep; let sort ← parseBool sort; let ie ← parseBool ie
      match Parser.reconstruct a d keep sort ie with
      | .ok s => pure s!"ok {Str.encode s}"
      | .error e => pure (encErr e)
  | ["line", d, strict, keep, ie, s] => do
      let d ← decOptDialect? d; let strict ← parseBool strict; let keep ← parseBool keep
      let ie ← parseBool ie; let s ← Str.decode? s
      match featureFromLine s d strict keep ie with
      | .ok f => pure ("ok " ++ encFeature f ie)
      | .error e => pure (encErr e)
  | "spec" :: rest => do
      let sp ← decSpec? rest
      pure s!"{encBool sp.WF} {encBool sp.WFspaces} {Str.encode (Grammar.renderLine sp)} {Str.encode (Grammar.renderWithSpaces sp)} {encAttrs sp.mapping} {encDialect sp.dialect}"
  | ["unquote", s] => do let s ← Str.decode? s; pure (Str.encode (Quote.unquote s))
  | ["quote", s] => do let s ← Str.decode? s; pure (Str.encode (Quote.quoteStr s))
  | ["chars", "space", s] => do let s ← Str.decode? s; pure (bits Str.isPySpace s)
  | ["chars", "word", s] => do let s ← Str.decode? s; pure (bits isWordChar s)
  | ["chars", "linebreak", s] => do let s ← Str.decode? s; pure (bits Str.isLineBreak s)
  | "choose" :: rest => do
      let fs ← decChoose? rest
      pure (encDialect (Helpers.chooseDialect fs))
  | ["file", cl, d, tr, lines] => do
      let cl ← (parseIntW cl).map Int.toNat; let d ← decOptDialect? d; let tr ← transformOf tr
      let lines ← decList? lines
      match Iter.runFile lines cl d tr with
      | .ok (d, fs, dirs) => pure s!"ok {encDialect d} {encList dirs} {fs.length} {encFeatures fs}"
      | .error e => pure (encErr e)
  | ["feats", cl, d, tr, lines] => do
      let cl ← (parseIntW cl).map Int.toNat; let d ← decOptDialect? d; let tr ← transformOf tr
      let lines ← decList? lines
      match lines.mapM (fun l => featureFromLine l none true false) with
      | .ok src =>
        let (d, fs) := Iter.runFeatures src cl d tr
        pure s!"ok {encDialect d} {fs.length} {encFeatures fs}"
      | .error e => pure (encErr e)
  | ["classify", line] => do
      let l ← Str.decode? line
      pure (match Iter.classify l with
        | .fastaStart => "fasta" | .directive s => "directive " ++ Str.encode s | .skip => "skip" | .feature => "feature")
  | ["int", s] => do
      let s ← Str.decode? s
      pure (match Str.parseInt? s with | some i => toString i | none => "err ValueError")
  | _ => none

end Proto
end GffModel
