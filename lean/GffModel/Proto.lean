/-
  GffModel.Proto — the line protocol of the correspondence driver (DESIGN.md §2.3).
  One command per line, one reply line per command.  Strings travel as dot-joined hexadecimal code
  points (`-` = empty string).  Anything unparsable yields `bad-op` — never a default.
-/
import GffModel.Str
import GffModel.Bins

namespace GffModel
namespace Proto

def words (line : String) : List String :=
  (line.splitOn " ").filter (· ≠ "")

def parseIntW (w : String) : Option Int := Str.parseInt? w.toList

def parseFmt : String → Option Bins.CoordFmt
  | "gff" => some .gff
  | "bed" => some .bed
  | _ => none

def parseBool : String → Option Bool
  | "1" => some true
  | "0" => some false
  | _ => none

def consts : String :=
  s!"consts first_shift={Bins.firstShift} next_shift={Bins.nextShift} offsets={Bins.offsets} max_chrom={Bins.maxChrom} off_gff={Bins.CoordFmt.gff.off} off_bed={Bins.CoordFmt.bed.off}"

/-- stateless commands -/
def stepPure (ws : List String) : Option String :=
  match ws with
  | ["consts"] => some consts
  | ["bins", s, e, f, o] => do
      let s ← parseIntW s; let e ← parseIntW e; let f ← parseFmt f; let o ← parseBool o
      pure (Bins.bins s e f o).render
  | _ => none

end Proto
end GffModel
