/-
  GffModel.ProtoWorld — protocol commands that EXECUTE `World.lean` (`createDb` on free / occupied paths with and
  without `force`, `connect`, `step` with `.bak` copies and failing writes) and `Conc.lean` (replay of a concrete
  schedule of concurrent imports).  Stateless: one command line carries one whole scenario, the reply carries the
  outcome of every step together with a canonical rendering of the world after it.

  `world <item> ; <item> ; …` with items

    create  <path> <force> <checklines> <dialect|none> <lines> <cfg: 11 words> <residue: _ | file>
    connect <path>
    update  <backup> <failAt|~> <checklines> <lines> <cfg: 11 words> <residue: _ | file auto>
    delete  <backup> <ids>
    addrel  <parent> <child> <level>
    reopen | count <ft|~> | ftypes | seqids | get <id>

  file    = `<rows> <rels> <directives> <meta dialects joined by a slash, or _> <autoincrements> <duplicates>` (six
            words, `ProtoDb` encodings; duplicates = `idspecid>newid` joined by slashes, or `_`); `residue` is what the harness saw the real code leave behind after a FAILED write (the
            model keeps it abstract: `World.step` / `World.createDb` take it as an argument).
  reply   = `ok` followed, per item, by ` | <outcome> <n> {<path> file}ⁿ <session counters | ~>`
            (outcome is one word: `ok`, `ok:<value>`, `err:<Exception>`).

  `conc <datas> <dir0: name=content,…> <schedule: i:op:name,…>` replays the schedule through `Conc.step`
  (`op` ∈ mkstemp | write | read | unlink | out must be the next operation of process `i`):
  reply   = `ok <per step: names in the directory / names held by the processes, joined by semicolons> <final directory>
            <outputs> <finished>` | `stuck <k> …` (step `k` is not enabled in the model) | `deviates <k>`.
-/
import GffModel.ProtoDb
import GffModel.World
import GffModel.Conc

namespace GffModel
namespace ProtoWorld
open Proto Interface Create

/-! ### rendering -/

def encMetas (ds : List Dialect) : String :=
  if ds.isEmpty then "_" else "/".intercalate (ds.map encDialect)

def decMetas? (w : String) : Option (List Dialect) :=
  if w = "_" then some [] else (w.splitOn "/").mapM decDialect?

/-- the `duplicates` table in insertion order -/
def encDups (l : List (Str × Str)) : String :=
  if l.isEmpty then "_" else "/".intercalate (l.map (fun (a, b) => Str.encode a ++ ">" ++ Str.encode b))

def decDups? (w : String) : Option (List (Str × Str)) :=
  if w = "_" then some [] else (w.splitOn "/").mapM (fun (e : String) =>
    match e.splitOn ">" with
    | [a, b] => do pure ((← Str.decode? a), (← Str.decode? b))
    | _ => none)

/-- a database file: `<rows> <rels> <directives> <meta dialects> <autoincrements> <duplicates>` -/
def encFile (db : Db) : String :=
  s!"{ProtoDb.encRows db.features} {ProtoDb.encRels db.relations} {encList db.directives} {encMetas db.metaRows} {ProtoDb.encAuto db.autoinc} {encDups db.duplicates}"

def decFile? : List String → Option Db
  | [rows, rels, dirs, metas, auto, dups] => do
    pure { features := ← (ProtoDb.splitNonEmpty rows "/").mapM ProtoDb.decRow?,
           relations := ← (ProtoDb.splitNonEmpty rels "/").mapM ProtoDb.decRel?,
           directives := ← decList? dirs, metaRows := ← decMetas? metas, autoinc := ← ProtoDb.decAuto? auto,
           duplicates := ← decDups? dups }
  | _ => none

/-- which paths exist, and the content of each file (sorted by the rendering, i.e. by path) -/
def encWorld (w : World) : String :=
  let items := ProtoDb.sortStrings (w.files.map (fun (p, db) => s!"{Str.encode p} {encFile db}"))
  s!"{items.length}" ++ String.join (items.map (fun x => " " ++ x))

structure St where
  world : World := {}
  conn : Option World.Conn := none

def St.theWorld (s : St) : World :=
  match s.conn with
  | some c => c.world
  | none => s.world

def encSt (s : St) : String :=
  encWorld s.theWorld ++ " " ++ (match s.conn with | some c => ProtoDb.encAuto c.sess.auto | none => "~")

def encOut : World.Out → String
  | .unit => "ok"
  | .feature f => "ok:" ++ (match f.id with | some i => Str.encode i | none => "~")
  | .rows rs => "ok:" ++ ProtoDb.encIds rs
  | .nat n => s!"ok:{n}"
  | .strs l => "ok:" ++ encList l
  | .error e => "err:" ++ e.name

def errWord (e : PyErr) : String := "err:" ++ e.name

/-! ### items of a world script -/

def decOptNat? (w : String) : Option (Option Nat) :=
  if w = "~" then some none else (parseIntW w).map (fun i => some i.toNat)

/-- run one operation on the open connection -/
def onConn (st : St) (k : World.Conn → World.Conn × World.Out) : St × String :=
  match st.conn with
  | none => (st, "err:NoConnection")
  | some c =>
    let (c', out) := k c
    ({ world := c'.world, conn := some c' }, encOut out)

/-- reads do not use the oracle for failed writes -/
def noResidue : Session → World.Op → Session := fun s _ => s

def item (st : St) (ws : List String) : Option (St × String) :=
  match ws with
  | "create" :: path :: force :: cl :: d :: lines :: rest => do
      let path ← Str.decode? path; let force ← parseBool force
      let cl ← (parseIntW cl).map Int.toNat; let d ← decOptDialect? d; let lines ← decList? lines
      let c ← ProtoDb.decCfg? (rest.take 11)
      let residue ← match rest.drop 11 with
        | ["_"] => some ({} : Db)
        | r => decFile? r
      -- argument / input errors that precede any file-level behaviour are outside the World model
      if !ProtoDb.forceFieldsOk c then pure (st, "err:pre") else
      match Iter.runFile lines cl d c.transform with
      | .error _ => pure (st, "err:pre")
      | .ok (dl, fs, dirs) =>
        match route c.forceGff dl with
        | .error _ => pure (st, "err:pre")
        | .ok imp =>
          let (w', r) := World.createDb st.theWorld path force imp (c.toCfg imp dl) dirs fs residue
          pure ({ world := w', conn := none }, match r with | .ok _ => "ok" | .error e => errWord e)
  | ["connect", path] => do
      let path ← Str.decode? path
      match World.connect st.theWorld path with
      | .ok c => pure ({ world := c.world, conn := some c }, "ok")
      | .error e => pure ({ world := st.theWorld, conn := none }, errWord e)
  | "update" :: backup :: failAt :: cl :: lines :: rest => do
      let b ← parseBool backup; let failAt ← decOptNat? failAt
      let cl ← (parseIntW cl).map Int.toNat; let lines ← decList? lines
      let c ← ProtoDb.decCfg? (rest.take 11)
      let residue : Option (Db × Dict Nat) ← match rest.drop 11 with
        | ["_"] => some none
        | [r1, r2, r3, r4, r5, r6, a] => do pure (some ((← decFile? [r1, r2, r3, r4, r5, r6]), (← ProtoDb.decAuto? a)))
        | _ => none
      if !ProtoDb.forceFieldsOk c then pure (st, "err:pre") else
      match Iter.runFile lines cl none c.transform with
      | .error _ => pure (st, "err:pre")
      | .ok (d, fs, _) =>
        let oracle : Session → World.Op → Session := fun s _ =>
          match residue with
          | some (db, a) => { s with db := db, auto := a }
          | none => s
        pure (onConn st (fun conn =>
          let imp := if conn.sess.dialect.fmt = Parser.gtf then Importer.gtf else Importer.gff
          -- `FeatureDB.update` first builds a DataIterator whose dialect peek pulls `checklines + 1` items: a source that
          -- fails inside that window fails before the importer has started (position 0 for `World.step`)
          let failAt := match failAt with
            | some i => if i ≤ cl then some 0 else some i
            | none => none
          World.step oracle conn (.update (c.toCfg imp d) fs failAt b)))
  | ["delete", backup, ids] => do
      let b ← parseBool backup; let ids ← decList? ids
      pure (onConn st (fun conn => World.step noResidue conn (.delete ids b)))
  | ["addrel", p, c, l] => do
      let p ← Str.decode? p; let c ← Str.decode? c; let l ← parseIntW l
      pure (onConn st (fun conn => World.step noResidue conn (.addRelation p c l)))
  | ["reopen"] => some (onConn st (fun conn => World.step noResidue conn .reopen))
  | ["count", ft] => do
      let ft ← ProtoDb.decStrOpt? ft
      pure (onConn st (fun conn => World.step noResidue conn (.count ft)))
  | ["ftypes"] => some (onConn st (fun conn => World.step noResidue conn .featuretypes))
  | ["seqids"] => some (onConn st (fun conn => World.step noResidue conn .seqids))
  | ["get", id] => do
      let id ← Str.decode? id
      pure (onConn st (fun conn => World.step noResidue conn (.get id)))
  | _ => none

/-- split a word list at every occurrence of the word `sep` -/
def splitAt (sep : String) (ws : List String) : List (List String) :=
  ws.foldr (fun w acc =>
    if w = sep then [] :: acc
    else match acc with
      | [] => [[w]]
      | h :: t => (w :: h) :: t) [[]]

def runScript (items : List (List String)) : Option String :=
  (items.foldlM (fun (acc : St × String) ws => do
      let (st, out) := acc
      let (st', r) ← item st ws
      pure (st', out ++ " | " ++ r ++ " " ++ encSt st')) (({} : St), "ok")).map (fun (p : St × String) => p.2)

/-! ### Conc: replay of a concrete schedule -/

def decOp? : String → Option Conc.Op
  | "mkstemp" => some .mkstemp | "write" => some .write | "read" => some .read
  | "unlink" => some .unlink | "out" => some .writeOutput | _ => none

/-- `name=content,…` | `_` -/
def decDir? (w : String) : Option (Dict Str) :=
  if w = "_" then some [] else (w.splitOn ",").mapM (fun (e : String) =>
    match e.splitOn "=" with
    | [k, v] => do pure ((← Str.decode? k), (← Str.decode? v))
    | _ => none)

def encDir (d : Dict Str) : String :=
  if d.isEmpty then "_" else
    ",".intercalate (ProtoDb.sortStrings (d.map (fun (k, v) => Str.encode k ++ "=" ++ Str.encode v)))

def encNames (l : List Str) : String :=
  if l.isEmpty then "_" else ",".intercalate (ProtoDb.sortStrings (l.map Str.encode))

/-- `i:op:name` -/
def decSched? (w : String) : Option (List (Nat × Conc.Op × Str)) :=
  if w = "_" then some [] else (w.splitOn ",").mapM (fun (e : String) =>
    match e.splitOn ":" with
    | [i, op, nm] => do pure ((← (parseIntW i).map Int.toNat), (← decOp? op), (← Str.decode? nm))
    | _ => none)

def encStepView (s : Conc.Sys) : String :=
  encNames s.tmpdir.keys ++ "/" ++ encNames (Conc.heldFiles s.procs).keys

def encOutputs (l : List (Option Str)) : String :=
  if l.isEmpty then "_" else ",".intercalate (l.map (fun o => match o with | some b => Str.encode b | none => "~"))

/-- replay: `(views so far, state)`; `Except` carries the early replies -/
def replay (s : Conc.Sys) (sched : List (Nat × Conc.Op × Str)) : String :=
  let rec go (s : Conc.Sys) (k : Nat) (views : List String) : List (Nat × Conc.Op × Str) → String
    | [] => s!"ok {if views.isEmpty then "_" else ";".intercalate views.reverse} {encDir s.tmpdir} {encOutputs s.outputs} {encBool s.finished}"
    | (i, op, nm) :: rest =>
      let next := (s.procs[i]?).bind (fun p => Conc.program[p.pc]?)
      if next ≠ some op then s!"deviates {k}"
      else match Conc.step s i nm with
        | none => s!"stuck {k} {if views.isEmpty then "_" else ";".intercalate views.reverse}"
        | some s' => go s' (k + 1) (encStepView s' :: views) rest
  go s 0 [] sched

def handler (ws : List String) : Option String :=
  match ws with
  | "world" :: rest => runScript (splitAt ";" rest)
  | ["conc", datas, dir0, sched] => do
      let datas ← decList? datas; let dir0 ← decDir? dir0; let sched ← decSched? sched
      pure (replay (Conc.init datas dir0) sched)
  | _ => none

end ProtoWorld
end GffModel
