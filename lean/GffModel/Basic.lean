/-
  GffModel.Basic — Python exceptions as an explicit result, and the insertion-ordered `dict`.
-/
import GffModel.Str

namespace GffModel

/-- The Python exceptions the properties care about (DESIGN.md §2.2). -/
inductive PyErr
  | value | index | key | type | attribute | assertion | attributeString
  | featureNotFound | integrity | operational | emptyInput | unbound | other
  deriving DecidableEq, Repr

abbrev Py := Except PyErr

def PyErr.name : PyErr → String
  | .value => "ValueError" | .index => "IndexError" | .key => "KeyError" | .type => "TypeError"
  | .attribute => "AttributeError" | .assertion => "AssertionError"
  | .attributeString => "AttributeStringError" | .featureNotFound => "FeatureNotFoundError"
  | .integrity => "IntegrityError" | .operational => "OperationalError" | .emptyInput => "EmptyInputError"
  | .unbound => "UnboundLocalError" | .other => "Exception"

/-- Python `s.split(sep)`: `ValueError` for an empty separator. -/
def pySplit (sep s : Str) : Py (List Str) :=
  if sep.isEmpty then .error .value else .ok (Str.split sep s)

/-- An insertion-ordered Python `dict` with string keys. -/
abbrev Dict (α : Type) := List (Str × α)

namespace Dict
variable {α : Type}

def get? (d : Dict α) (k : Str) : Option α :=
  match d with
  | [] => none
  | (k', v) :: rest => if k' = k then some v else get? rest k

def contains (d : Dict α) (k : Str) : Bool := (get? d k).isSome

/-- `d[k] = v`: an existing key keeps its position. -/
def set (d : Dict α) (k : Str) (v : α) : Dict α :=
  match d with
  | [] => [(k, v)]
  | (k', v') :: rest => if k' = k then (k, v) :: rest else (k', v') :: set rest k v

def erase (d : Dict α) (k : Str) : Dict α := d.filter (fun p => p.1 ≠ k)

def keys (d : Dict α) : List Str := d.map (·.1)

/-- build from a list of pairs with `dict(...)` semantics (later duplicates overwrite in place) -/
def ofList (l : List (Str × α)) : Dict α := l.foldl (fun d p => set d p.1 p.2) []

/-- `d.update(e)` -/
def update (d e : Dict α) : Dict α := e.foldl (fun d p => set d p.1 p.2) d

end Dict

/-- Attribute mapping as it leaves the parser or the database: every value is a list of strings. -/
abbrev Attrs := Dict (List Str)

/-- Python's `sorted` on strings: by code point, lexicographic, stable. -/
def strLe (a b : Str) : Bool := decide (a ≤ b)
def sortStrs (l : List Str) : List Str := l.mergeSort strLe

/-- duplicate-free, first occurrence kept -/
def dedup (l : List Str) : List Str :=
  l.foldl (fun acc x => if acc.contains x then acc else acc ++ [x]) []

end GffModel
