/-
  GffModel.ProtoIter — protocol commands of the C13 / C14 checks (GffModel.IterMore).

    form <path|gz|string|list|generator|di-path|di-list|di-generator> <checklines> <dialect|none> <transform> <lines>
        -> ok <dialect> <n> <features>            (Input.run; feature forms are built from the inferring
                                                   parses of the feature lines, like `feats`)
    formdb <checklines> <dialect|none> <transform> <db-dialect> <lines>
        -> same, for the FeatureDB form: every feature carries the database's dialect
    peeklen <checklines> <n-items>                -> items pulled from a one-shot source by the peek
    inspect <file|feats> <look_for> <limit|none> <lines>
        -> ok <feature_count> <counters>          counters: `_` or `;`-joined name=value:count,…
    dbdirs <current|repaired> <checklines> <peeked 0|1> <lines>
        -> ok <db.directives> <iterator.directives after the import>
-/
import GffModel.Proto
import GffModel.IterMore

namespace GffModel
namespace ProtoIter
open Proto Iter

def fieldOf : String → Option Field
  | "seqid" => some .seqid | "chrom" => some .chrom | "source" => some .source
  | "featuretype" => some .featuretype | "start" => some .start | "stop" => some .stop
  | "end" => some .end_ | "score" => some .score | "strand" => some .strand | "frame" => some .frame
  | _ => none

def Field.name : Field → String
  | .seqid => "seqid" | .chrom => "chrom" | .source => "source" | .featuretype => "featuretype"
  | .start => "start" | .stop => "stop" | .end_ => "end" | .score => "score" | .strand => "strand"
  | .frame => "frame"

def lookForOf (w : String) : Option LookFor :=
  if w = "attribute_keys" then some .attributeKeys
  else if w = "feature_count" then some .featureCount
  else (fieldOf w).map .field

def LookFor.name : LookFor → String
  | .field a => Field.name a
  | .attributeKeys => "attribute_keys"
  | .featureCount => "feature_count"

def decLookFor? (w : String) : Option (List LookFor) :=
  if w = "_" then some [] else (w.splitOn ",").mapM lookForOf

def encCounter (c : Counter) : String :=
  if c.isEmpty then "_" else ",".intercalate (c.map (fun (v, n) => Str.encode v ++ ":" ++ toString n))

def encResults (r : Results) : String :=
  if r.isEmpty then "_" else ";".intercalate (r.map (fun (k, c) => LookFor.name k ++ "=" ++ encCounter c))

def decLimit? (w : String) : Option (Option Int) :=
  if w = "none" then some none else (parseIntW w).map some

def parseFeatures (lines : List Str) : Py (List Feature) :=
  (featureLines lines).mapM (fun l => featureFromLine l none true false)

def encRun (r : Py (Dialect × List Feature)) : String :=
  match r with
  | .ok (d, fs) => s!"ok {encDialect d} {fs.length} {encFeatures fs}"
  | .error e => encErr e

def handler (ws : List String) : Option String :=
  match ws with
  | ["form", form, cl, d, tr, lines] => do
      let cl ← (parseIntW cl).map Int.toNat; let d ← decOptDialect? d; let tr ← transformOf tr
      let lines ← decList? lines
      let cfg : Config := { checklines := cl, supplied := d, transform := tr }
      let feat (mk : List Feature → Input) : String :=
        match parseFeatures lines with
        | .ok src => encRun ((mk src).run cfg)
        | .error e => encErr e
      match form with
      | "path" => pure (encRun ((Input.path lines).run cfg))
      | "gz" => pure (encRun ((Input.gzPath lines).run cfg))
      | "string" => pure (encRun ((Input.string lines).run cfg))
      | "di-path" => pure (encRun ((Input.dataIterator (.path lines)).run cfg))
      | "list" => pure (feat .list)
      | "generator" => pure (feat .generator)
      | "di-list" => pure (feat (fun s => .dataIterator (.list s)))
      | "di-generator" => pure (feat (fun s => .dataIterator (.generator s)))
      | _ => none
  | ["formdb", cl, d, tr, dbd, lines] => do
      let cl ← (parseIntW cl).map Int.toNat; let d ← decOptDialect? d; let tr ← transformOf tr
      let dbd ← decDialect? dbd
      let lines ← decList? lines
      let cfg : Config := { checklines := cl, supplied := d, transform := tr }
      match parseFeatures lines with
      | .ok src => pure (encRun ((Input.featureDB (src.map (withDialect dbd))).run cfg))
      | .error e => pure (encErr e)
  | ["peeklen", cl, n] => do
      let cl ← (parseIntW cl).map Int.toNat; let n ← (parseIntW n).map Int.toNat
      pure (toString (pulledByPeek (List.replicate n ({} : Feature)) cl))
  | ["inspect", kind, lf, limit, lines] => do
      let lf ← decLookFor? lf; let limit ← decLimit? limit; let lines ← decList? lines
      let data : Py Input ← match kind with
        | "file" => some (.ok (Input.path lines))
        | "feats" => some ((parseFeatures lines).map Input.generator)
        | _ => none
      match data.bind (fun i => Iter.inspect i lf limit) with
      | .ok r => pure s!"ok {r.featureCount} {encResults r.counters}"
      | .error e => pure (encErr e)
  | ["dbdirs", v, cl, peeked, lines] => do
      let v ← match v with | "current" => some Variant.current | "repaired" => some Variant.repaired | _ => none
      let cl ← (parseIntW cl).map Int.toNat; let peeked ← parseBool peeked
      let lines ← decList? lines
      pure s!"ok {encList (reopenDirectives (createDbDirectives v lines cl peeked))} {encList (iteratorDirectivesAfterImport v lines cl peeked)}"
  | _ => none

end ProtoIter
end GffModel
