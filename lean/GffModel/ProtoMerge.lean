/-
  GffModel.ProtoMerge — protocol commands of `Merge` (C16) and `Inter` (C15).

  A feature list travels as `_` or `,`-joined items `<hex of the GFF line>/<id>/<file_order>/<children>`:
  the line is parsed with `featureFromLine` (strict, no dialect given) on this side and with
  `feature_from_line` on the Python side; `id` is a hex string or `~`; `file_order` a number or `~`;
  `children` is `~` (the object has no such attribute), or `0` (it has one: `()`).

    merge <d9fixed> <dialect> <keep> <sort> <criteria> <autoinc> <features>
        criteria: `_` or `,`-joined names (see `critOf`); autoinc: `_` or `;`-joined `<hex key>=<n>`
        -> ok <autoinc> <n> <out> / <out> …      out = <nchildren> <printed children list> <feature> <id> <file_order>
         | err <Name>
    interf <dialect> <keep> <sort> <new_featuretype|~> <merge_attributes> <numeric_sort> <update attrs> <features>
        -> ok <n> <feature> <id> <file_order> / …   | err <Name>
    mattr <attrs1> <attrs2> <numeric_sort>  -> <attrs>
-/
import GffModel.Proto
import GffModel.Merge
import GffModel.Inter

namespace GffModel
namespace ProtoMerge
open Proto

def encOptStr : Option Str → String
  | none => "~"
  | some s => Str.encode s

def decOptStr? (w : String) : Option (Option Str) :=
  if w = "~" then some none else (Str.decode? w).map some

def encOptNat : Option Nat → String
  | none => "~"
  | some n => toString n

def decOptNat? (w : String) : Option (Option Nat) :=
  if w = "~" then some none else (Str.parseNat? w.toList).map some

def encFeat (f : Feature) : String :=
  encFeature f false ++ " " ++ encOptStr f.id ++ " " ++ encOptNat f.fileOrder

/-- one item of a feature list; a line that does not parse makes the whole command `err <Name>` -/
def decItem? (w : String) : Option (Py Merge.MObj) :=
  match w.splitOn "/" with
  | [line, id, fo, ch] => do
    let line ← Str.decode? line
    let id ← decOptStr? id
    let fo ← decOptNat? fo
    let ch ← (if ch = "~" then some none else if ch = "0" then some (some []) else none :
      Option (Option (List Feature)))
    match featureFromLine line none true false with
    | .error e => pure (.error e)
    | .ok f => pure (.ok { f := { f with id := id, fileOrder := fo }, children := ch })
  | _ => none

def decItems? (w : String) : Option (Py (List Merge.MObj)) :=
  if w = "_" then some (.ok []) else do
    let items ← (w.splitOn ",").mapM decItem?
    pure (items.mapM id)

/-- the shipped criteria and the fixed zoo of custom ones (mirrored in `harness/featlist.py`) -/
def critOf (w : String) : Option Merge.Crit :=
  match w.splitOn ":" with
  | ["seqid"] => some Merge.seqid
  | ["strand"] => some Merge.strand
  | ["ftype"] => some Merge.featureType
  | ["exact"] => some Merge.exactCoordinatesOnly
  | ["endinc"] => some Merge.overlapEndInclusive
  | ["startinc"] => some Merge.overlapStartInclusive
  | ["anyinc"] => some Merge.overlapAnyInclusive
  | ["endthr", t] => (parseIntW t).map Merge.overlapEndThreshold
  | ["startthr", t] => (parseIntW t).map Merge.overlapStartThreshold
  | ["anythr", t] => (parseIntW t).map Merge.overlapAnyThreshold
  -- custom: `len(components) < 3`
  | ["max3"] => some (fun _ _ k => .ok (decide (k.length < 3)))
  -- custom: `acc.score == cur.score`
  | ["samescore"] => some (fun a c _ => .ok (decide (a.score = c.score)))
  | ["always"] => some (fun _ _ _ => .ok true)
  -- custom, not reflexive
  | ["never"] => some (fun _ _ _ => .ok false)
  | _ => none

def decCrits? (w : String) : Option (List Merge.Crit) :=
  if w = "_" then some [] else (w.splitOn ",").mapM critOf

def encAutoinc (a : Dict Nat) : String :=
  if a.isEmpty then "_" else ";".intercalate (a.map (fun (k, n) => Str.encode k ++ "=" ++ toString n))

def decAutoinc? (w : String) : Option (Dict Nat) :=
  if w = "_" then some [] else
  (w.splitOn ";").mapM (fun item =>
    match item.splitOn "=" with
    | [k, n] => do pure ((← Str.decode? k), (← Str.parseNat? n.toList))
    | _ => none)

def encPrinted (fs : List Feature) : String :=
  if fs.isEmpty then "_" else
  ",".intercalate (fs.map (fun f => match f.print false with
    | .ok s => Str.encode s
    | .error e => "!" ++ e.name))

def encOut (o : Merge.MObj) : String :=
  let kids := o.children.getD []
  s!"{kids.length} {encPrinted kids} {encFeat o.f}"

def joinOuts (l : List String) : String :=
  if l.isEmpty then "_" else " / ".intercalate l

def handler (ws : List String) : Option String :=
  match ws with
  | ["merge", fixed, d, keep, sort, crits, ai, feats] => do
      let fixed ← parseBool fixed; let d ← decDialect? d; let keep ← parseBool keep; let sort ← parseBool sort
      let cs ← decCrits? crits; let ai ← decAutoinc? ai; let xs ← decItems? feats
      match xs with
      | .error e => pure (encErr e)
      | .ok xs =>
        match Merge.merge { dialect := d, keepOrder := keep, sortVals := sort, d9fixed := fixed } cs ai xs with
        | .error e => pure (encErr e)
        | .ok (outs, ai') => pure s!"ok {encAutoinc ai'} {outs.length} {joinOuts (outs.map encOut)}"
  | ["interf", d, keep, sort, nft, ma, ns, upd, feats] => do
      let d ← decDialect? d; let keep ← parseBool keep; let sort ← parseBool sort
      let nft ← decOptStr? nft; let ma ← parseBool ma; let ns ← parseBool ns; let upd ← decAttrs? upd
      let xs ← decItems? feats
      match xs with
      | .error e => pure (encErr e)
      | .ok xs =>
        match Inter.interfeatures { dialect := d, keepOrder := keep, sortVals := sort }
            { newFtype := nft, mergeAttrs := ma, numericSort := ns, update := upd } (xs.map (·.f)) with
        | .error e => pure (encErr e)
        | .ok outs => pure s!"ok {outs.length} {joinOuts (outs.map encFeat)}"
  | ["mattr", a1, a2, ns] => do
      let a1 ← decAttrs? a1; let a2 ← decAttrs? a2; let ns ← parseBool ns
      pure (encAttrs (Inter.mergeAttributes a1 a2 ns))
  | _ => none

end ProtoMerge
end GffModel
