/-
  GffModel.Interface — `interface.FeatureDB`: opening (`__init__` L189-219), `__getitem__`, the query
  builder `helpers.make_query` (L121-294) by its *meaning* (filter / limit with bin pre-filter / order),
  `_relation` / `children` / `parents`, `region` (L689-798), counts and distinct lists, `delete`,
  `add_relation`, `update`.  SQL text is not modelled; each query is modelled by what sqlite computes
  for it (assumption validated by the correspondence, DESIGN.md §5).
-/
import GffModel.Create

namespace GffModel
namespace Interface

/-- an open `FeatureDB`: the database plus the in-memory copies made by `__init__` -/
structure Session where
  db : Db
  auto : Dict Nat                    -- `self._autoincrements` (shared with the creator in `update`)
  dialect : Dialect
  directives : List Str
  keepOrder : Bool := false
  sortVals : Bool := false
  deriving Repr

/-- `FeatureDB(dbfn)`: first meta row, directives, counters.  No meta row → `TypeError` (fetchone() is None). -/
def openDb (db : Db) (keepOrder sortVals : Bool := false) : Py Session :=
  match db.metaRows with
  | [] => .error .type
  | d :: _ => .ok { db := db, auto := db.autoinc, dialect := d, directives := db.directives,
                    keepOrder := keepOrder, sortVals := sortVals }

def Session.returner (s : Session) (r : Row) : Feature := r.toFeature s.dialect s.keepOrder s.sortVals

/-- `db[key]` -/
def getItem (s : Session) (key : Str) : Py Feature :=
  match s.db.getRow? key with
  | some r => .ok (s.returner r)
  | none => .error .featureNotFound

/-! ### ordering as sqlite does it -/

inductive SqlVal
  | null
  | int (i : Int)
  | text (s : Str)
  deriving DecidableEq, Repr

/-- sqlite's cross-type order: NULL < INTEGER < TEXT; TEXT by BINARY collation (code point order) -/
def SqlVal.le : SqlVal → SqlVal → Bool
  | .null, _ => true
  | .int _, .null => false
  | .int a, .int b => decide (a ≤ b)
  | .int _, .text _ => true
  | .text _, .null => false
  | .text _, .int _ => false
  | .text a, .text b => strLe a b

inductive SortKey
  | seqid | source | featuretype | start | stop | score | strand | frame | fileOrder | length
  deriving DecidableEq, Repr

def optInt : Option Int → SqlVal
  | none => .null
  | some i => .int i

/-- value of an ORDER BY term for a row at position `rowid` -/
def sortVal (rowid : Nat) (r : Row) : SortKey → SqlVal
  | .seqid => .text r.seqid | .source => .text r.source | .featuretype => .text r.ftype
  | .start => optInt r.start | .stop => optInt r.stop | .score => .text r.score
  | .strand => .text r.strand | .frame => .text r.frame
  | .fileOrder => .int rowid
  | .length => match r.start, r.stop with
    | some s, some e => .int (e - s)
    | _, _ => .null

/-- `ORDER BY k1, …, kn ASC|DESC`: the direction binds to the LAST term only (as the SQL text says) -/
def rowLe (keys : List SortKey) (reverse : Bool) (a b : Nat × Row) : Bool :=
  match keys with
  | [] => true
  | [k] =>
    let va := sortVal a.1 a.2 k; let vb := sortVal b.1 b.2 k
    if reverse then vb.le va else va.le vb
  | k :: rest =>
    let va := sortVal a.1 a.2 k; let vb := sortVal b.1 b.2 k
    if va = vb then rowLe rest reverse a b else va.le vb

/-! ### make_query -/

structure Query where
  featuretype : List Str := []                 -- `[]` = falsy = no restriction; a string is a singleton
  strand : Option Str := none                  -- `none` and `""` are falsy
  limit : Option (Str × Int × Int) := none     -- (seqid, start, end)
  within : Bool := false
  orderBy : List SortKey := []
  reverse : Bool := false

/-- does `make_query` add the `bin IN (…)` clause, and which bins (post-repair D5: only when both ends
are in the range where `bins.bins` computes real bins, and fewer than 900 of them) -/
def limitBins (start stop : Int) : Option (List Int) :=
  if 0 < start ∧ start < Bins.maxChrom ∧ 0 ≤ stop ∧ stop < Bins.maxChrom then
    match Bins.bins start stop .gff false with
    | .set bs => let bs := bs.eraseDups; if bs.length < 900 then some bs else none
    | .int _ => none
  else none

def le? (a : Option Int) (b : Int) : Bool := match a with | some x => decide (x ≤ b) | none => false
def ge? (a : Option Int) (b : Int) : Bool := match a with | some x => decide (x ≥ b) | none => false
def lt? (a : Option Int) (b : Int) : Bool := match a with | some x => decide (x < b) | none => false
def gt? (a : Option Int) (b : Int) : Bool := match a with | some x => decide (x > b) | none => false

def inBins (r : Row) (bs : List Int) : Bool := match r.bin with | some b => bs.contains b | none => false

/-- the WHERE part of `make_query` -/
def rowMatches (q : Query) (r : Row) : Bool :=
  (q.featuretype.isEmpty || q.featuretype.contains r.ftype) &&
  (match q.limit with
   | none => true
   | some (seqid, s, e) =>
     decide (r.seqid = seqid) &&
     (if q.within then ge? r.start s && le? r.stop e else le? r.start e && ge? r.stop s) &&
     (match limitBins s e with | some bs => inBins r bs | none => true)) &&
  (match q.strand with
   | none => true
   | some st => st.isEmpty || decide (r.strand = st))

def indexed (rows : List Row) : List (Nat × Row) := rows.zipIdx.map (fun (r, i) => (i + 1, r))

def order (q : Query) (rows : List (Nat × Row)) : List (Nat × Row) :=
  if q.orderBy.isEmpty then rows else rows.mergeSort (rowLe q.orderBy q.reverse)

/-- `all_features(...)` / `features_of_type(...)` -/
def runQuery (s : Session) (q : Query) : List Row :=
  (order q ((indexed s.db.features).filter (fun p => rowMatches q p.2))).map (·.2)

/-- `_relation`: `children` (`isChildren = true`) or `parents` of `id`, optional level; DISTINCT -/
def related (db : Db) (isChildren : Bool) (id : Str) (level : Option Int) : List Str :=
  (db.relations.filter (fun r =>
      (if isChildren then decide (r.parent = id) else decide (r.child = id)) &&
      (match level with | some l => decide (r.level = l) | none => true))).map
    (fun r => if isChildren then r.child else r.parent)

def runRelation (s : Session) (isChildren : Bool) (id : Str) (level : Option Int) (q : Query) : List Row :=
  let ids := related s.db isChildren id level
  (order q ((indexed s.db.features).filter (fun p => ids.contains p.2.id && rowMatches q p.2))).map (·.2)

/-- `count_features_of_type(featuretype)` -/
def countFeatures (s : Session) (ft : Option Str) : Nat :=
  match ft with
  | none => s.db.features.length
  | some t => (s.db.features.filter (·.ftype = t)).length

/-- `featuretypes()` / `seqids()`: SELECT DISTINCT -/
def featuretypes (s : Session) : List Str := dedup (s.db.features.map (·.ftype))
def seqids (s : Session) : List Str := dedup (s.db.features.map (·.seqid))

/-! ### region -/

structure RegionArgs where
  seqid : Option Str := none
  start : Option Int := none
  stop : Option Int := none
  strand : Option Str := none
  featuretype : Option (List Str) := none      -- `None` vs a (possibly empty) list
  within : Bool := false

/-- Python truthiness of an optional int (`if start:`) -/
def truthy : Option Int → Option Int
  | some 0 => none
  | x => x

/-- `FeatureDB.region(...)` after argument normalisation (post-repair D4) -/
def regionMatches (a : RegionArgs) (r : Row) : Bool :=
  (match a.seqid with | some sq => decide (r.seqid = sq) | none => true) &&
  (if a.within then
     (match truthy a.start with | some s => ge? r.start s | none => true) &&
     (match truthy a.stop with | some e => le? r.stop e | none => true)
   else
     match truthy a.start, truthy a.stop with
     | some s, some e =>
       -- `start <= region_end AND end >= region_start`
       le? r.start e && ge? r.stop s
     | some s, none => gt? r.stop s
     | none, some e => lt? r.start e
     | none, none => true) &&
  (if a.within then
     match a.start, a.stop with
     | some s, some e =>
       if 0 < s ∧ s < Bins.maxChrom ∧ 0 ≤ e ∧ e < Bins.maxChrom then
         match Bins.bins s e .gff false with
         | .set bs => if bs.eraseDups.length < 900 then inBins r bs else true
         | .int _ => true
       else true
     | _, _ => true
   else true) &&
  (match a.featuretype with | some fts => fts.contains r.ftype | none => true) &&
  (match a.strand with | some st => decide (r.strand = st) | none => true)

def region (s : Session) (a : RegionArgs) : List Row := s.db.features.filter (regionMatches a)

/-- does `region()` hand sqlite a statement it accepts?  Without any position restriction the text is
`… WHERE  AND …` / `… WHERE ` and with an empty featuretype collection it contains `()`: both are
`sqlite3.OperationalError` in the real code (the docstring promises `all_features()` for the first). -/
def regionExecutable (a : RegionArgs) : Bool :=
  (a.seqid.isSome || (truthy a.start).isSome || (truthy a.stop).isSome) && a.featuretype != some []

/-- `list(db.region(...))` including that failure -/
def regionPy (s : Session) (a : RegionArgs) : Py (List Row) :=
  if regionExecutable a then .ok (region s a) else .error .operational

/-! ### writes -/

/-- `delete(ids)` -/
def delete (s : Session) (ids : List Str) : Session :=
  { s with db := ids.foldl (fun db id => db.deleteId id) s.db }

/-- `add_relation(parent, child, level)` with ids (no attribute rewrite functions) -/
def addRelation (s : Session) (parent child : Str) (level : Int) : Py Session := do
  let _ ← getItem s parent
  let _ ← getItem s child
  let db ← s.db.insertRel ⟨parent, child, level⟩
  pure { s with db := db }

/-- `update(features, **kwargs)`: the importer chosen by the *database's* format, run on the open
database with the live counters; an empty input is a no-op.  `cfg.idSpec` is already defaulted. -/
def update (s : Session) (cfg : Create.Cfg) (fs : List Feature) : Py Session := do
  if fs.isEmpty then return s
  if s.dialect.fmt = Parser.gtf then
    let (db, auto) ← Create.populateGtf cfg s.db s.auto fs
    let (db, auto) ← Create.updateRelationsGtf cfg db auto
    pure { s with db := Create.finalize db cfg.dialect [] auto, auto := auto }
  else if s.dialect.fmt = Parser.gff3 then
    let (db, auto) ← Create.populateGff cfg s.db s.auto fs
    pure { s with db := Create.finalize (Create.updateRelationsGff db) cfg.dialect [] auto, auto := auto }
  else .error .value

/-- `FeatureDB.update(data, transform=…)` as the caller sees it: "no features" is tested on the RAW input
(`if not data._peek: return self`, before any transform runs), so an input whose features are all dropped
by the transform is not a no-op - the importer starts and finds nothing (`EmptyInputError` from the GFF
importer, `ValueError` from the GTF one).  `fs` are the features after the transform. -/
def updateRaw (s : Session) (cfg : Create.Cfg) (rawEmpty : Bool) (fs : List Feature) : Py Session :=
  if rawEmpty then .ok s
  else if fs.isEmpty then
    (if s.dialect.fmt = Parser.gtf then .error .value
     else if s.dialect.fmt = Parser.gff3 then .error .emptyInput else .error .value)
  else update s cfg fs

end Interface
end GffModel
