/-
  GffModel.Json — `helpers._jsonify` / `helpers._unjsonify` (helpers.py L311-323) over a text-level model
  of `simplejson.dumps(obj, separators=(",", ":"))` (simplejson 4.1, `ensure_ascii=True`) and of
  `simplejson.loads`, for the two shapes gffutils stores:

    (a) a dict `str -> list of str`   (the `attributes` column; on the decoding side a value may also be a
        bare string, which `Attributes(obj)` then wraps)
    (b) a list of `str`               (the `extra` column)

  Encoder (`encoder.py`: `ESCAPE_ASCII = ([\\"]|[^\ -~])`, `ESCAPE_DCT`): `"` `\` and the five named
  control characters get a two-character escape, the printable ASCII range U+0020..U+007E (including `/`)
  is copied, everything else (other controls, U+007F, all non-ASCII incl. U+2028/2029) becomes `\uXXXX`
  with lower-case hex, characters above U+FFFF a surrogate pair of two such escapes.

  Decoder (`decoder.py`: `raw_decode`, `JSONObject`, `JSONArray`, `py_scanstring`): an optional BOM,
  whitespace `[ \t\n\r]*` between all tokens, strings with the escapes `\" \\ \/ \b \f \n \r \t \uXXXX`
  (hex digits of either case; a high surrogate escape directly followed by a low surrogate escape is one
  character), unescaped control characters < U+0020 rejected, duplicate keys: `dict(pairs)`.
  The decoders answer `none` for every text that `loads` rejects **or** decodes to something outside the
  shape — other JSON types, nesting, and strings with a lone surrogate (a Python `str` may hold one, a
  `Str` here cannot: outside the domain).
-/
import GffModel.AttrsModel

namespace GffModel
namespace Json

set_option linter.unusedVariables false

/-! ### encoder -/

def hex4 (n : Nat) : Str :=
  [Str.hexDigit (n / 4096 % 16), Str.hexDigit (n / 256 % 16), Str.hexDigit (n / 16 % 16), Str.hexDigit (n % 16)]

/-- `'\\u%04x' % n` -/
def uEsc (n : Nat) : Str := '\\' :: 'u' :: hex4 n

/-- the replacement of one character under `ensure_ascii=True` -/
def escChar (c : Char) : Str :=
  if c = '"' then ['\\', '"']
  else if c = '\\' then ['\\', '\\']
  else if c = '\n' then ['\\', 'n']
  else if c = '\r' then ['\\', 'r']
  else if c = '\t' then ['\\', 't']
  else if c = '\x08' then ['\\', 'b']
  else if c = '\x0c' then ['\\', 'f']
  else if 0x20 ≤ c.toNat ∧ c.toNat ≤ 0x7e then [c]
  else if c.toNat < 0x10000 then uEsc c.toNat
  else uEsc (0xd800 + (c.toNat - 0x10000) / 1024) ++ uEsc (0xdc00 + (c.toNat - 0x10000) % 1024)

def escBody : Str → Str
  | [] => []
  | c :: cs => escChar c ++ escBody cs

/-- a JSON string literal -/
def encStr (s : Str) : Str := '"' :: (escBody s ++ ['"'])

/-- the elements of an array, `,`-separated -/
def encElems : List Str → Str
  | [] => []
  | [v] => encStr v
  | v :: w :: rest => encStr v ++ ',' :: encElems (w :: rest)

/-- `dumps(list_of_str, separators=(",", ":"))` — `_jsonify(feature.extra)` -/
def encodeList (l : List Str) : Str := '[' :: (encElems l ++ [']'])

def encMembers : List (Str × List Str) → Str
  | [] => []
  | [(k, v)] => encStr k ++ ':' :: encodeList v
  | (k, v) :: q :: rest => encStr k ++ ':' :: (encodeList v ++ ',' :: encMembers (q :: rest))

/-- `dumps(attributes._d, separators=(",", ":"))` — `_jsonify(feature.attributes)`; a stored tuple is
written like a list, so the argument is the `Attrs` form -/
def encodeAttrs (m : Attrs) : Str := '{' :: (encMembers m ++ ['}'])

/-! ### decoder -/

def isWs (c : Char) : Bool := c = ' ' || c = '\t' || c = '\n' || c = '\r'

def skipWs (s : Str) : Str := s.dropWhile isWs

def hexVal4? (a b c d : Char) : Option Nat :=
  match Str.hexVal? a, Str.hexVal? b, Str.hexVal? c, Str.hexVal? d with
  | some x, some y, some z, some w => some (((x * 16 + y) * 16 + z) * 16 + w)
  | _, _, _, _ => none

/-- `BACKSLASH` -/
def simpleEsc (e : Char) : Option Char :=
  if e = '"' then some '"'
  else if e = '\\' then some '\\'
  else if e = '/' then some '/'
  else if e = 'b' then some '\x08'
  else if e = 'f' then some '\x0c'
  else if e = 'n' then some '\n'
  else if e = 'r' then some '\r'
  else if e = 't' then some '\t'
  else none

def isHigh (u : Nat) : Bool := decide (0xd800 ≤ u ∧ u < 0xdc00)
def isLow (u : Nat) : Bool := decide (0xdc00 ≤ u ∧ u < 0xe000)

def consFst (c : Char) (p : Str × Str) : Str × Str := (c :: p.1, p.2)

/-- `scanstring(s, end)`: the input is what follows the opening quote; the result is the decoded string
and what follows the closing quote -/
def scanStr : Str → Option (Str × Str)
  | [] => none
  | c :: cs =>
    if c = '"' then some ([], cs)
    else if c = '\\' then
      match cs with
      | [] => none
      | e :: cs1 =>
        if e = 'u' then
          match cs1 with
          | a :: b :: c' :: d :: r =>
            match hexVal4? a b c' d with
            | none => none
            | some u =>
              if isHigh u then
                match r with
                | b1 :: u1 :: e1 :: f1 :: g1 :: h1 :: r2 =>
                  if b1 = '\\' ∧ u1 = 'u' then
                    match hexVal4? e1 f1 g1 h1 with
                    | none => none
                    | some u2 =>
                      if isLow u2 then
                        (scanStr r2).map (consFst (Char.ofNat (0x10000 + ((u - 0xd800) * 1024 + (u2 - 0xdc00)))))
                      else none    -- lone high surrogate: outside the domain
                  else none        -- lone high surrogate
                | _ => none        -- lone high surrogate / truncated
              else if isLow u then none   -- lone low surrogate
              else (scanStr r).map (consFst (Char.ofNat u))
          | _ => none
        else
          match simpleEsc e with
          | none => none
          | some ch => (scanStr cs1).map (consFst ch)
    else if c.toNat < 0x20 then none
    else (scanStr cs).map (consFst c)

theorem scanStr_length (s v r : Str) : scanStr s = some (v, r) → r.length < s.length := by
  fun_induction scanStr s generalizing v r
  all_goals intro h
  all_goals first
    | (simp at h; done)
    | (simp only [Option.some.injEq, Prod.mk.injEq] at h; rw [← h.2]; simp)
    | (simp only [Option.map_eq_some_iff] at h
       obtain ⟨⟨v0, r0⟩, h0, h1⟩ := h
       rename_i ih
       have := ih v0 r0 h0
       simp only [consFst, Prod.mk.injEq] at h1
       rw [← h1.2]; simp only [List.length_cons]; omega)

theorem skipWs_length (s : Str) : (skipWs s).length ≤ s.length := by
  unfold skipWs
  induction s with
  | nil => simp
  | cons c cs ih => simp only [List.dropWhile_cons]; split <;> simp only [List.length_cons] <;> omega

/-- the elements of a non-empty array: the input starts at the first character of a value; only string
values belong to the shape.  Result: the elements and what follows the closing `]`.
(`JSONArray`: value, whitespace, `]` or `,`, whitespace, value, ...; a `]` after a comma is the "illegal
trailing comma" error — here: not a `"`.) -/
def parseElems (s : Str) : Option (List Str × Str) :=
  match s with
  | [] => none
  | c :: r =>
    if c = '"' then
      match h : scanStr r with
      | none => none
      | some (v, r1) =>
        match h2 : skipWs r1 with
        | [] => none
        | c2 :: r2 =>
          if c2 = ']' then some ([v], r2)
          else if c2 = ',' then
            (parseElems (skipWs r2)).map (fun p => (v :: p.1, p.2))
          else none
    else none
termination_by s.length
decreasing_by
  have h1 := scanStr_length r v r1 h
  have h3 := skipWs_length r1
  have h4 := skipWs_length r2
  rw [h2] at h3
  simp only [List.length_cons] at h3 ⊢
  omega

/-- `JSONArray`: the input is what follows `[` -/
def parseArr (s : Str) : Option (List Str × Str) :=
  match skipWs s with
  | [] => none
  | c :: r => if c = ']' then some ([], r) else parseElems (c :: r)

theorem parseElems_length (s : Str) : ∀ (l : List Str) (r : Str), parseElems s = some (l, r) → r.length < s.length := by
  fun_induction parseElems s
  case case4 cs v r1 h1 r2 h2 =>
    intro l r' hh
    have a1 := scanStr_length _ _ _ h1
    have a2 := skipWs_length r1
    simp only [Option.some.injEq, Prod.mk.injEq] at hh
    rw [h2] at a2; rw [← hh.2]; simp only [List.length_cons] at a2 ⊢; omega
  case case5 cs v r1 h1 r2 h2 _ ih =>
    intro l r' hh
    have a1 := scanStr_length _ _ _ h1
    have a2 := skipWs_length r1
    have a3 := skipWs_length r2
    simp only [Option.map_eq_some_iff] at hh
    obtain ⟨⟨l0, r0⟩, h0, h3⟩ := hh
    have a4 := ih l0 r0 h0
    simp only [Prod.mk.injEq] at h3
    rw [h2] at a2; rw [← h3.2]; simp only [List.length_cons] at a2 ⊢; omega
  all_goals intro l r' hh
  all_goals (simp at hh; done)

theorem parseArr_length (s : Str) (l : List Str) (r : Str) (h : parseArr s = some (l, r)) :
    r.length < s.length := by
  unfold parseArr at h
  have a := skipWs_length s
  split at h
  · simp at h
  · rename_i c r0 heq
    rw [heq] at a
    split at h
    · simp only [Option.some.injEq, Prod.mk.injEq] at h
      rw [← h.2]; simp only [List.length_cons] at a; omega
    · have := parseElems_length _ _ _ h
      omega

/-- one member value: a string (which `Attributes(obj)` wraps later) or an array of strings; the input
starts at the first character of the value -/
def parseValue (s : Str) : Option (PyVal × Str) :=
  match s with
  | [] => none
  | c :: r =>
    if c = '"' then (scanStr r).map (fun p => (PyVal.scalar p.1, p.2))
    else if c = '[' then (parseArr r).map (fun p => (PyVal.list p.1, p.2))
    else none

theorem parseValue_length (s : Str) (v : PyVal) (r : Str) (h : parseValue s = some (v, r)) :
    r.length < s.length := by
  unfold parseValue at h
  split at h
  · simp at h
  · rename_i c r0
    split at h
    · simp only [Option.map_eq_some_iff] at h
      obtain ⟨⟨v0, r1⟩, h0, h1⟩ := h
      have := scanStr_length _ _ _ h0
      simp only [Prod.mk.injEq] at h1
      rw [← h1.2]; simp only [List.length_cons]; omega
    · split at h
      · simp only [Option.map_eq_some_iff] at h
        obtain ⟨⟨v0, r1⟩, h0, h1⟩ := h
        have := parseArr_length _ _ _ h0
        simp only [Prod.mk.injEq] at h1
        rw [← h1.2]; simp only [List.length_cons]; omega
      · simp at h

/-- the members of a non-empty object: the input starts at the `"` of the first key.  Result: the
`(key, value)` pairs in text order and what follows the closing `}`.
(`JSONObject`: key string, whitespace, `:`, whitespace, value, whitespace, `}` or `,`, whitespace, `"` ...) -/
def parseMembers (s : Str) : Option (List (Str × PyVal) × Str) :=
  match s with
  | [] => none
  | c :: r =>
    if c = '"' then
      match h : scanStr r with
      | none => none
      | some (k, r1) =>
        match h2 : skipWs r1 with
        | [] => none
        | c2 :: r2 =>
          if c2 = ':' then
            match h3 : parseValue (skipWs r2) with
            | none => none
            | some (v, r3) =>
              match h4 : skipWs r3 with
              | [] => none
              | c4 :: r4 =>
                if c4 = '}' then some ([(k, v)], r4)
                else if c4 = ',' then
                  (parseMembers (skipWs r4)).map (fun p => ((k, v) :: p.1, p.2))
                else none
          else none
    else none
termination_by s.length
decreasing_by
  have a1 := scanStr_length r k r1 h
  have a2 := skipWs_length r1
  have a3 := skipWs_length r2
  have a4 := parseValue_length _ _ _ h3
  have a5 := skipWs_length r3
  have a6 := skipWs_length r4
  rw [h2] at a2; rw [h4] at a5
  simp only [List.length_cons] at a2 a5 ⊢
  omega

/-- `raw_decode`: one leading U+FEFF, or the three characters U+00EF U+00BB U+00BF, is skipped -/
def stripBom (s : Str) : Str :=
  match s with
  | c :: r =>
    if c.toNat = 0xfeff then r
    else match s with
      | a :: b :: c3 :: r3 => if a.toNat = 0xef ∧ b.toNat = 0xbb ∧ c3.toNat = 0xbf then r3 else s
      | _ => s
  | [] => []

/-- `loads(text)` restricted to objects whose values are strings or arrays of strings; the result is
`dict(pairs)` (a repeated key keeps its first position and its last value) -/
def decodeObj (t : Str) : Option (Dict PyVal) :=
  match skipWs (stripBom t) with
  | [] => none
  | c :: r =>
    if c = '{' then
      match skipWs r with
      | [] => none
      | c1 :: r1 =>
        if c1 = '}' then (if (skipWs r1).isEmpty then some [] else none)
        else match parseMembers (c1 :: r1) with
          | none => none
          | some (ps, r2) => if (skipWs r2).isEmpty then some (Dict.ofList ps) else none
    else none

/-- `_unjsonify(text, isattributes=True)`: `Attributes(loads(text))`, as the `Attrs` of the `Feature`
model (after `Attributes(...)` every value is a list) -/
def decodeAttrs (t : Str) : Option Attrs :=
  (decodeObj t).map (fun d => Attributes.lower (Attributes.ofDict d))

/-- `_unjsonify(text)` for the `extra` column: `loads(text)` restricted to arrays of strings -/
def decodeList (t : Str) : Option (List Str) :=
  match skipWs (stripBom t) with
  | [] => none
  | c :: r =>
    if c = '[' then
      match parseArr r with
      | none => none
      | some (l, r1) => if (skipWs r1).isEmpty then some l else none
    else none

end Json
end GffModel
