/-
  GffModel.Quote — `parser._to_quote` / `Quoter` (parser.py L56-74) and `urllib.parse.unquote`
  (CPython 3.12: `_generate_unquoted_parts`, `_unquote_impl`, UTF-8 decoding with errors="replace").
-/
import GffModel.Basic

namespace GffModel
namespace Quote

/-- membership in `parser._to_quote`: `\n \t \r % ; = & ,`, all of U+0000–U+001F, and U+007F -/
def toQuote (c : Char) : Bool :=
  c.toNat < 32 || c.toNat == 127 || c == '%' || c == ';' || c == '=' || c == '&' || c == ','

def hexU (n : Nat) : Char :=
  if n < 10 then Char.ofNat ('0'.toNat + n) else Char.ofNat ('A'.toNat + (n - 10))

/-- `Quoter.__missing__`: `"%{:02X}".format(ord(b))` for a reserved character -/
def quoteChar (c : Char) : Str :=
  if toQuote c then ['%', hexU (c.toNat / 16), hexU (c.toNat % 16)] else [c]

/-- `"".join([quoter[j] for j in i])` -/
def quoteStr (s : Str) : Str := s.flatMap quoteChar

/-! ### unquote -/

/-- `_unquote_impl` on an ASCII run: `%XY` with two hex digits (either case) becomes one byte; any
other `%` stays. The result is a byte list. -/
def unquoteBytes : Str → List Nat
  | c :: a :: b :: rest =>
    if c = '%' then
      match Str.hexVal? a, Str.hexVal? b with
      | some x, some y => (16 * x + y) :: unquoteBytes rest
      | _, _ => c.toNat :: unquoteBytes (a :: b :: rest)
    else c.toNat :: unquoteBytes (a :: b :: rest)
  | c :: rest => c.toNat :: unquoteBytes rest
  | [] => []

def isCont (b : Nat) : Bool := 0x80 ≤ b && b < 0xC0

def repl : Char := Char.ofNat 0xFFFD

/-- CPython's UTF-8 decoder with `errors="replace"`: one U+FFFD per maximal invalid subpart
(`stringlib/codecs.h: utf8_decode` + the replace handler).  `fuel` bounds the recursion. -/
def utf8DecodeAux : Nat → List Nat → Str
  | 0, _ => []
  | _, [] => []
  | fuel + 1, b :: rest =>
    if b < 0x80 then Char.ofNat b :: utf8DecodeAux fuel rest
    else if b < 0xC2 then repl :: utf8DecodeAux fuel rest               -- invalid start byte
    else if b < 0xE0 then
      match rest with
      | [] => [repl]                                                     -- unexpected end of data
      | b2 :: rest2 =>
        if isCont b2 then Char.ofNat ((b - 0xC0) * 64 + (b2 - 0x80)) :: utf8DecodeAux fuel rest2
        else repl :: utf8DecodeAux fuel rest
    else if b < 0xF0 then
      match rest with
      | [] => [repl]
      | b2 :: rest2 =>
        if !isCont b2 || (if b2 < 0xA0 then b == 0xE0 else b == 0xED) then repl :: utf8DecodeAux fuel rest
        else match rest2 with
          | [] => [repl]
          | b3 :: rest3 =>
            if isCont b3 then
              Char.ofNat ((b - 0xE0) * 4096 + (b2 - 0x80) * 64 + (b3 - 0x80)) :: utf8DecodeAux fuel rest3
            else repl :: utf8DecodeAux fuel rest2
    else if b < 0xF5 then
      match rest with
      | [] => [repl]
      | b2 :: rest2 =>
        if !isCont b2 || (if b2 < 0x90 then b == 0xF0 else b == 0xF4) then repl :: utf8DecodeAux fuel rest
        else match rest2 with
          | [] => [repl]
          | b3 :: rest3 =>
            if !isCont b3 then repl :: utf8DecodeAux fuel rest2
            else match rest3 with
              | [] => [repl]
              | b4 :: rest4 =>
                if isCont b4 then
                  Char.ofNat ((b - 0xF0) * 262144 + (b2 - 0x80) * 4096 + (b3 - 0x80) * 64 + (b4 - 0x80))
                    :: utf8DecodeAux fuel rest4
                else repl :: utf8DecodeAux fuel rest3
    else repl :: utf8DecodeAux fuel rest

def utf8Decode (bs : List Nat) : Str := utf8DecodeAux (bs.length + 1) bs

def isAscii (c : Char) : Bool := c.toNat < 128

/-- `_generate_unquoted_parts`: maximal ASCII runs are unquoted and decoded, the rest is copied. -/
def unquoteRuns : Nat → Str → Str
  | 0, _ => []
  | _, [] => []
  | fuel + 1, s@(c :: _) =>
    if isAscii c then
      let run := s.takeWhile isAscii
      utf8Decode (unquoteBytes run) ++ unquoteRuns fuel (s.dropWhile isAscii)
    else
      s.takeWhile (fun c => !isAscii c) ++ unquoteRuns fuel (s.dropWhile (fun c => !isAscii c))

/-- `urllib.parse.unquote(s)` (encoding utf-8, errors replace) -/
def unquote (s : Str) : Str :=
  if !s.contains '%' then s else unquoteRuns (s.length + 1) s

end Quote
end GffModel
