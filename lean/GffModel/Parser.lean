/-
  GffModel.Parser — `constants.dialect`, `parser._reconstruct` (L77-171) and `parser._split_keyvals`
  (L177-375), branch for branch.  `ignoreEsc` is `constants.ignore_url_escape_characters`.
-/
import GffModel.Quote
import GffModel.WordTable

namespace GffModel

structure Dialect where
  leadingSemicolon : Bool
  trailingSemicolon : Bool
  quoted : Bool              -- "quoted GFF2 values"
  fieldSep : Str             -- "field separator"
  kvSep : Str                -- "keyval separator"
  multiSep : Str             -- "multival separator"
  fmt : Str                  -- "fmt"
  repeatedKeys : Bool        -- "repeated keys"
  order : List Str
  deriving DecidableEq, Repr

/-- `constants.dialect` -/
def Dialect.default : Dialect :=
  { leadingSemicolon := false, trailingSemicolon := false, quoted := false,
    fieldSep := [';'], kvSep := ['='], multiSep := [','], fmt := "gff3".toList, repeatedKeys := false,
    order := ["ID".toList, "Name".toList, "gene_id".toList, "transcript_id".toList] }

namespace Parser

def gff3 : Str := "gff3".toList
def gtf : Str := "gtf".toList

/-- index of `k` in `order`, or `none` (Python: `ValueError` → `1e6`) -/
def orderIndex (order : List Str) (k : Str) : Option Nat :=
  let i := order.findIdx (· = k)
  if i < order.length then some i else none

/-- the `sort_key` of `_reconstruct`: known keys by their index, unknown keys after all of them -/
def sortKeyLe (order : List Str) (a b : Str × List Str) : Bool :=
  match orderIndex order a.1, orderIndex order b.1 with
  | some i, some j => i ≤ j
  | some _, none => true
  | none, some _ => false
  | none, none => true

/-- `parser._reconstruct(keyvals, dialect, keep_order, sort_attribute_values)` -/
def reconstruct (keyvals : Attrs) (d : Option Dialect) (keepOrder sortVals : Bool)
    (ignoreEsc : Bool := false) : Py Str :=
  match d with
  | none => .error .attributeString
  | some d =>
    if keyvals.isEmpty then .ok [] else
    let attributes : Attrs :=
      if ignoreEsc || d.fmt ≠ gff3 then keyvals
      else Dict.ofList (keyvals.map (fun (k, v) => (k, v.map Quote.quoteStr)))
    let items : List (Str × List Str) :=
      if d.repeatedKeys then
        attributes.flatMap (fun (k, v) => if v.length > 1 then v.map (fun x => (k, [x])) else [(k, v)])
      else attributes
    let items := if keepOrder then items.mergeSort (sortKeyLe d.order) else items
    let parts := items.map (fun (key, val) =>
      if !val.isEmpty then
        let val := if sortVals then sortStrs val else val
        let valStr := Str.join d.multiSep val
        if !valStr.isEmpty then
          let valStr := if d.quoted then '"' :: valStr ++ ['"'] else valStr
          Str.join d.kvSep [key, valStr]
        else key
      else
        if d.fmt = gtf then Str.join d.kvSep [key, ['"', '"']] else key)
    let partsStr := Str.join d.fieldSep parts
    .ok (if d.trailingSemicolon then partsStr ++ [';'] else partsStr)

/-- `_unquote_quals` -/
def unquoteQuals (quals : Attrs) (d : Dialect) (ignoreEsc : Bool) : Attrs :=
  if !ignoreEsc && d.fmt = gff3 then quals.map (fun (k, v) => (k, v.map Quote.unquote)) else quals

/-- `item` → `(key, val)`: the three-way `len(item)` switch.  `item` is never empty in Python (it
comes from `str.split`); an empty one is an `IndexError` here, not a default. -/
def keyVal (kvSep : Str) : List Str → Py (Str × Str)
  | [] => .error .index
  | [k] => .ok (k, [])
  | [k, v] => .ok (k, v)
  | k :: rest => .ok (k, Str.join kvSep rest)

/-- `val[0] == '"' and val[-1] == '"'` for `len(val) > 0` -/
def isQuotedVal (val : Str) : Bool :=
  match val with
  | [] => false
  | c :: _ => c == '"' && val.getLast? == some '"'

/-- `val[1:-1]` -/
def stripQuotes (val : Str) : Str := (val.drop 1).dropLast

/-- `(p[0], " ".join(p[1:]))` -/
def headRest : List Str → Py (List Str)
  | [] => .error .index
  | p0 :: rest => .ok [p0, Str.join [' '] rest]

/-- the provided-dialect path (L215-273) -/
def splitProvided (s : Str) (d : Dialect) (ignoreEsc : Bool) : Py (Attrs × Dialect) := do
  let s := if d.trailingSemicolon then Str.rstripChars [';'] s else s
  let parts ← pySplit d.fieldSep s
  let kvsep := d.kvSep
  -- the `if dialect["leading semicolon"]:` block only computes values that are overwritten below;
  -- its one observable effect is the `ValueError` of `split("")`
  if d.leadingSemicolon then
    let _ ← parts.mapM (fun p =>
      let p := match p with | ';' :: t => t | _ => p
      pySplit kvsep (Str.strip p))
  let keyVals : List (List Str) ←
    if d.fmt = gff3 then parts.mapM (pySplit kvsep)
    else do
      let pieces ← (parts.zipIdx).mapM (fun (p, i) =>
        let p := if i == 0 && d.leadingSemicolon then p.drop 1 else p
        pySplit kvsep (Str.strip p))
      pieces.mapM headRest
  let quals ← keyVals.foldlM (fun (quals : Attrs) item => do
      let (key, val) ← keyVal d.kvSep item
      let quals := if quals.contains key then quals else Dict.set quals key []
      let val := if d.quoted && isQuotedVal val then stripQuotes val else val
      if !val.isEmpty then
        let vals := Str.split [','] val
        pure (Dict.set quals key ((quals.get? key).getD [] ++ vals))
      else pure quals) ([] : Attrs)
  pure (unquoteQuals quals d ignoreEsc, d)

/-- `gff3_kw_pat.match(parts[0])` with `gff3_kw_pat = re.compile(r"\w+=")` -/
def matchesKw (p : Str) : Bool :=
  let w := p.takeWhile isWordChar
  !w.isEmpty && (p.drop w.length).head? == some '='

/-- the inferring path (L275-375) -/
def splitInfer (s : Str) (ignoreEsc : Bool) : Py (Attrs × Dialect) := do
  let d := { Dialect.default with order := [] }
  -- `keyval_str[-1] == ";"`
  let (s, d) := if s.getLast? == some ';' then (s.dropLast, { d with trailingSemicolon := true }) else (s, d)
  -- `for sep in (" ; ", "; ", ";")`
  let p1 := Str.split " ; ".toList s
  let p2 := Str.split "; ".toList s
  let p3 := Str.split ";".toList s
  let (parts, d) :=
    if p1.length > 1 then (p1, { d with fieldSep := " ; ".toList })
    else if p2.length > 1 then (p2, { d with fieldSep := "; ".toList })
    else if p3.length > 1 then (p3, { d with fieldSep := ";".toList })
    else (p3, d)
  let p0 ← match parts with | [] => Except.error PyErr.index | p :: _ => pure p
  let (keyVals, d) : List (List Str) × Dialect ←
    if matchesKw p0 then
      pure (parts.map (Str.split ['=']), { d with fmt := gff3, kvSep := ['='] })
    else do
      let d := { d with kvSep := [' '] }
      let lead := parts.any (fun p => p.head? == some ';')
      let pieces := parts.map (fun p =>
        let p := match p with | ';' :: t => t | _ => p
        Str.split [' '] (Str.strip p))
      let kv ← pieces.mapM headRest
      pure (kv, if lead then { d with leadingSemicolon := true } else d)
  let (quals, d) ← keyVals.foldlM (fun (acc : Attrs × Dialect) item => do
      let (quals, d) := acc
      let (key, val) ← keyVal d.kvSep item
      let (quals, d) :=
        if quals.contains key then (quals, { d with repeatedKeys := true }) else (Dict.set quals key [], d)
      let (val, d) := if isQuotedVal val then (stripQuotes val, { d with quoted := true }) else (val, d)
      let quals :=
        if !val.isEmpty then
          let cur := (quals.get? key).getD []
          if d.repeatedKeys then Dict.set quals key (cur ++ [val])
          else
            let vals := Str.split [','] val
            if vals.any (fun i => i.head? == some ' ') then Dict.set quals key (cur ++ [val])
            else Dict.set quals key (cur ++ vals)
        else quals
      pure (quals, { d with order := d.order ++ [key] })) (([] : Attrs), d)
  let d := if d.kvSep = [' '] && d.quoted then { d with fmt := gtf } else d
  pure (unquoteQuals quals d ignoreEsc, d)

/-- `parser._split_keyvals(keyval_str, dialect)` -/
def splitKeyvals (s : Str) (d : Option Dialect) (ignoreEsc : Bool := false) : Py (Attrs × Dialect) :=
  match d with
  | some d => if s.isEmpty then .ok ([], d) else splitProvided s d ignoreEsc
  | none => if s.isEmpty then .ok ([], Dialect.default) else splitInfer s ignoreEsc

end Parser
end GffModel
