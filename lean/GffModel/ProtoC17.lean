/-
  GffModel.ProtoC17 — protocol commands of property C17 (attribute container, JSON form, merge_attributes,
  feature equality).

  Extra wire formats: a `PyVal` is `S<str>` (scalar), `L<list>` (list), `T<list>` (tuple); a dict of
  `PyVal` is `_` or `;`-joined `key=<pyval>` (built with `dict(...)` semantics).

    jsonenc <attrs>                      -> ok <text>                      _jsonify(Attributes)
    jsonencl <list>                      -> ok <text>                      _jsonify(list)
    jsondec <text>                       -> ok <attrs> | none              _unjsonify(text, isattributes=True)
    jsondecl <text>                      -> ok <list> | none               _unjsonify(text)
    mattr <k1> <k2> <a1> <a2> <num> <al> -> ok <attrs> | err <E>           merge_attributes; k = d(ict)|a(ttributes)
    mattrfixed <k1> <k2> <a1> <a2> <num> -> ok <attrs> | err <E>           ... with the setting pinned
    aops <al> <op>*                      -> ok <store> <items> | err <E>   a fresh Attributes(), then the ops
         op = set/<key>/<pyval> | upd/<pyvaldict> | upa/<pyvaldict> | new/<pyvaldict> | del/<key>
    fops <al> <line> <key>/<pyval>*      -> ok <attrs> <printed> <getitems> | err <E>
    numkey <str>                         -> num <int> | nonnum
    feq <line1> <line2>                  -> ok <eq> <ne> | err <E>
-/
import GffModel.Proto
import GffModel.AttrsModel
import GffModel.Json

namespace GffModel
namespace ProtoC17

open Proto

def encPyVal : PyVal → String
  | .scalar s => "S" ++ Str.encode s
  | .list l => "L" ++ encList l
  | .tuple l => "T" ++ encList l

def decPyVal? (w : String) : Option PyVal :=
  match w.toList with
  | 'S' :: r => (Str.decode? (String.ofList r)).map PyVal.scalar
  | 'L' :: r => (decList? (String.ofList r)).map PyVal.list
  | 'T' :: r => (decList? (String.ofList r)).map PyVal.tuple
  | _ => none

def encPyDict (d : Dict PyVal) : String :=
  if d.isEmpty then "_" else ";".intercalate (d.map (fun (k, v) => Str.encode k ++ "=" ++ encPyVal v))

def decPyDict? (w : String) : Option (Dict PyVal) :=
  if w = "_" then some [] else do
    let ps ← (w.splitOn ";").mapM (fun item =>
      match item.splitOn "=" with
      | [k, v] => do pure ((← Str.decode? k), (← decPyVal? v))
      | _ => none)
    pure (Dict.ofList ps)

def decKind? : String → Option Kind
  | "d" => some .dict
  | "a" => some .attrs
  | _ => none

/-- an argument of `merge_attributes` as the harness builds it: a plain dict as given, an
`Attributes(dict)` with its values wrapped -/
def mkArg (k : Kind) (d : Dict PyVal) : Dict PyVal :=
  match k with
  | .dict => d
  | .attrs => Attributes.ofDict d

def encPyAttrs : Py Attrs → String
  | .ok a => "ok " ++ encAttrs a
  | .error e => encErr e

def applyOp (al : Bool) (a : Attributes) (op : String) : Option (Py Attributes) :=
  match op.splitOn "/" with
  | ["set", k, v] => do pure (.ok (Attributes.set a (← Str.decode? k) (← decPyVal? v)))
  | ["upd", d] => do pure (.ok (Attributes.update a (← decPyDict? d)))
  | ["upa", d] => do pure (.ok (Attributes.updateFrom a (Attributes.ofDict (← decPyDict? d)) al))
  | ["new", d] => do pure (.ok (Attributes.ofDict (← decPyDict? d)))
  | ["del", k] => do pure (Attributes.del a (← Str.decode? k))
  | _ => none

def applyOps (al : Bool) : Attributes → List String → Option (Py Attributes)
  | a, [] => some (.ok a)
  | a, op :: rest =>
    match applyOp al a op with
    | none => none
    | some (.error e) => some (.error e)
    | some (.ok a') => applyOps al a' rest

def applyFOps (f : Feature) : List String → Option Feature
  | [] => some f
  | op :: rest =>
    match op.splitOn "/" with
    | [k, v] => do
      let k ← Str.decode? k
      let v ← decPyVal? v
      applyFOps (f.setItem k v) rest
    | _ => none

def handler (ws : List String) : Option String :=
  match ws with
  | ["jsonenc", a] => do let a ← decAttrs? a; pure ("ok " ++ Str.encode (Json.encodeAttrs a))
  | ["jsonencl", l] => do let l ← decList? l; pure ("ok " ++ Str.encode (Json.encodeList l))
  | ["jsondec", t] => do
      let t ← Str.decode? t
      pure (match Json.decodeAttrs t with | some a => "ok " ++ encAttrs a | none => "none")
  | ["jsondecl", t] => do
      let t ← Str.decode? t
      pure (match Json.decodeList t with | some l => "ok " ++ encList l | none => "none")
  | ["mattr", k1, k2, a1, a2, num, al] => do
      let k1 ← decKind? k1; let k2 ← decKind? k2
      let a1 ← decPyDict? a1; let a2 ← decPyDict? a2
      let num ← parseBool num; let al ← parseBool al
      pure (encPyAttrs (mergeAttributes k1 k2 (mkArg k1 a1) (mkArg k2 a2) num al))
  | ["mattrfixed", k1, k2, a1, a2, num] => do
      let k1 ← decKind? k1; let k2 ← decKind? k2
      let a1 ← decPyDict? a1; let a2 ← decPyDict? a2
      let num ← parseBool num
      pure (encPyAttrs (mergeAttributesFixed k1 k2 (mkArg k1 a1) (mkArg k2 a2) num))
  | "aops" :: al :: ops => do
      let al ← parseBool al
      match ← applyOps al [] ops with
      | .ok a => pure s!"ok {encPyDict a} {encPyDict (Dict.ofList (Attributes.items a al))}"
      | .error e => pure (encErr e)
  | "fops" :: al :: line :: ops => do
      let al ← parseBool al
      let line ← Str.decode? line
      match featureFromLine line none true false with
      | .error e => pure (encErr e)
      | .ok f =>
        let f ← applyFOps f ops
        let printed := match f.print with
          | .ok s => Str.encode s
          | .error e => "!" ++ e.name
        let gets := f.attrs.map (fun p => match f.getItem al p.1 with
          | .ok v => (p.1, v)
          | .error _ => (p.1, PyVal.scalar "?".toList))
        pure s!"ok {encAttrs f.attrs} {printed} {encPyDict gets}"
  | ["numkey", s] => do
      let s ← Str.decode? s
      pure (match decKey? s with | some k => s!"num {k}" | none => "nonnum")
  | ["feq", l1, l2] => do
      let l1 ← Str.decode? l1; let l2 ← Str.decode? l2
      match featureFromLine l1 none true false, featureFromLine l2 none true false with
      | .ok f, .ok g =>
        match f.pyEq g, f.pyNe g with
        | .ok e, .ok n => pure s!"ok {encBool e} {encBool n}"
        | .error e, _ => pure (encErr e)
        | _, .error e => pure (encErr e)
      | .error e, _ => pure (encErr e)
      | _, .error e => pure (encErr e)
  | _ => none

end ProtoC17
end GffModel
