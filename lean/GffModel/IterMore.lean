/-
  GffModel.IterMore — additions to `GffModel.Iter` for C13 / C14:

  * the seven input forms of `iterators.DataIterator` (L242-317) as an `inductive Input` and their
    full iteration `Input.run`;
  * a logging version of the common `__iter__` (L91-99) — what `harness/transforms.Counting` observes;
  * Python truthiness of a `Feature` (`if i:` on L96 calls `Feature.__len__`);
  * `inspect.inspect` (L78-109), counter for counter;
  * the `directives` list as a *shared Python list object*: `_custom_iter` L127 (`self.directives = []`
    rebinding, the current tree; `del self.directives[:]` clearing in place, the repair of defect D1),
    `_directive_handler` L101-102, `create_db` L1374-1375 (captures the object after the peek),
    `_DBCreator._finalize` L477-484 (writes the captured object), `FeatureDB.__init__` L203-209 (reads
    the rows back).
-/
import GffModel.Iter

namespace GffModel
namespace Iter

/-! ### input forms -/

/-- `i.dialect = self.dialect` (L93) -/
def withDialect (d : Dialect) (f : Feature) : Feature := { f with dialect := d }

/-- What can be handed to `DataIterator` / `create_db(data=…)`.  Text forms carry the lines of the
annotation (already `rstrip("\n\r")`-ed, as `_custom_iter` does first), feature forms the features. -/
inductive Input
  /-- a file name: `_FileIterator`, `open(path)` -/
  | path (lines : List Str)
  /-- a name ending in `.gz`: `_FileIterator`, `gzip.open(path)`, every line `.decode("utf-8")`-ed -/
  | gzPath (lines : List Str)
  /-- `from_string=True`: the text is written to a `NamedTemporaryFile`, then `_FileIterator` -/
  | string (lines : List Str)
  /-- a list (re-iterable): `_FeatureIterator`; `peek` does not re-chain (no `__next__`) -/
  | list (fs : List Feature)
  /-- a one-shot generator: `_FeatureIterator`; `peek` consumes and re-chains -/
  | generator (fs : List Feature)
  /-- a `FeatureDB`: `_FeatureIterator` over the one-shot `all_features()` stream -/
  | featureDB (fs : List Feature)
  /-- an already built `DataIterator` is returned unchanged (L283-284); its configuration is the one
  it was built with -/
  | dataIterator (inner : Input)

structure Config where
  checklines : Nat
  supplied : Option Dialect := none
  transform : Option (Feature → Option Feature) := none

/-- `_FeatureIterator` over a re-iterable list: `peek` reads the first items and leaves `self.data`
alone, the full iteration starts again from the beginning. -/
def runList (src : List Feature) (checklines : Nat) (supplied : Option Dialect)
    (transform : Option (Feature → Option Feature)) : Dialect × List Feature :=
  let d := match supplied with
    | some d => d
    | none => Helpers.chooseDialect ((src.take (checklines + 1)).map view)
  (d, applyTransform d transform src)

/-- the dispatch of `DataIterator` followed by a full iteration: `(iterator.dialect, list(iterator))` -/
def Input.run (cfg : Config) : Input → Py (Dialect × List Feature)
  | .path ls | .gzPath ls | .string ls =>
    (runFile ls cfg.checklines cfg.supplied cfg.transform).map (fun r => (r.1, r.2.1))
  | .list fs => pure (runList fs cfg.checklines cfg.supplied cfg.transform)
  | .generator fs | .featureDB fs => pure (runFeatures fs cfg.checklines cfg.supplied cfg.transform)
  | .dataIterator inner => inner.run cfg

/-- number of items a one-shot source has handed out right after `DataIterator(gen, checklines)` -/
def pulledByPeek (src : List Feature) (checklines : Nat) : Nat := (featPeek src checklines).1.length

/-! ### the common `__iter__` with a log of the transform's arguments -/

/-- `(yielded features, arguments the transform was called with, in call order)` -/
def applyTransformLog (d : Dialect) (t : Feature → Option Feature) :
    List Feature → List Feature × List Feature
  | [] => ([], [])
  | f :: rest =>
    let f' := withDialect d f
    let r := applyTransformLog d t rest
    ((match t f' with | some g => g :: r.1 | none => r.1), f' :: r.2)

/-- `bool(feature)`: there is no `__bool__`, so Python uses `__len__` = `stop - start + 1`
(`TypeError` for a `None` coordinate, `ValueError` for a negative length, false for length 0).  The
transforms of the model return `Option Feature`; a Python transform that returns a Feature `g`
corresponds to `some g` only when `truthy g = .ok true`. -/
def truthy (f : Feature) : Py Bool :=
  match f.len with
  | .error e => .error e
  | .ok n => if n < 0 then .error .value else .ok (n ≠ 0)

/-! ### `inspect.inspect` -/

/-- the attributes of a `Feature` object that `look_for` may name (`getattr(f, name)`) -/
inductive Field
  | seqid | chrom | source | featuretype | start | stop | end_ | score | strand | frame
  deriving DecidableEq, Repr

def coordRepr : Option Int → Str
  | none => "None".toList
  | some i => Str.intToStr i

/-- `getattr(f, name)`, rendered (`str(value)`) -/
def Field.get (a : Field) (f : Feature) : Str :=
  match a with
  | .seqid | .chrom => f.seqid
  | .source => f.source
  | .featuretype => f.ftype
  | .start => coordRepr f.start
  | .stop | .end_ => coordRepr f.stop
  | .score => f.score
  | .strand => f.strand
  | .frame => f.frame

inductive LookFor
  | field (a : Field)
  | attributeKeys
  | featureCount
  deriving DecidableEq, Repr

/-- `collections.Counter`: insertion-ordered `value → count` -/
abbrev Counter := List (Str × Nat)

namespace Counter

/-- `c[v] += 1` -/
def bump (c : Counter) (v : Str) : Counter :=
  if c.any (fun p => p.1 = v) then c.map (fun p => if p.1 = v then (p.1, p.2 + 1) else p)
  else c ++ [(v, 1)]

/-- `c.update(iterable)` -/
def update (c : Counter) (vs : List Str) : Counter := vs.foldl bump c

/-- `c[v]` (0 for a missing key) -/
def get (c : Counter) (v : Str) : Nat := (c.lookup v).getD 0

end Counter

/-- the `results` dict: `look_for` item → Counter -/
abbrev Results := List (LookFor × Counter)

namespace Results

/-- `results[k] = v` -/
def set (r : Results) (k : LookFor) (v : Counter) : Results :=
  match r with
  | [] => [(k, v)]
  | (k', v') :: rest => if k' = k then (k, v) :: rest else (k', v') :: set rest k v

/-- `results[k].update(vs)` (the key is always present: it was set in the first loop) -/
def updateAt (r : Results) (k : LookFor) (vs : List Str) : Results :=
  r.map (fun p => if p.1 = k then (p.1, Counter.update p.2 vs) else p)

def get (r : Results) (k : LookFor) : Counter := (r.lookup k).getD []

end Results

/-- L78-83: `results[i] = Counter()` for every item of `look_for` -/
def inspectInit (lookFor : List LookFor) : Results := lookFor.foldl (fun r k => Results.set r k []) []

/-- L80-82: `obj_attrs` -/
def objAttrs (lookFor : List LookFor) : List Field :=
  lookFor.filterMap (fun k => match k with | .field a => some a | _ => none)

/-- L94-98: the body of the loop for one feature -/
def inspectStep (oa : List Field) (attrKeys : Bool) (r : Results) (f : Feature) : Results :=
  let r := oa.foldl (fun r a => Results.updateAt r (.field a) [a.get f]) r
  if attrKeys then Results.updateAt r .attributeKeys f.attrs.keys else r

/-- L101: `if limit and feature_count == limit` -/
def limitHit (limit : Option Int) (n : Nat) : Bool :=
  match limit with
  | none => false
  | some l => l ≠ 0 && (n : Int) = l

/-- L89-102 -/
def inspectLoop (oa : List Field) (attrKeys : Bool) (limit : Option Int) :
    List Feature → Results → Nat → Results × Nat
  | [], r, n => (r, n)
  | f :: rest, r, n =>
    let r := inspectStep oa attrKeys r f
    let n := n + 1
    if limitHit limit n then (r, n) else inspectLoop oa attrKeys limit rest r n

structure InspectResult where
  /-- `new_results` without its `feature_count` entry, in dict order -/
  counters : Results
  /-- `new_results["feature_count"]` (always present) -/
  featureCount : Nat

/-- `inspect(data, look_for, limit)` on the iterated features -/
def inspectFeatures (lookFor : List LookFor) (limit : Option Int) (fs : List Feature) : InspectResult :=
  let r := inspectLoop (objAttrs lookFor) (lookFor.contains .attributeKeys) limit fs (inspectInit lookFor) 0
  { counters := r.1.filter (fun p => p.1 ≠ .featureCount), featureCount := r.2 }

/-- `inspect(data, …)`: L87 builds `DataIterator(data)` with the defaults (`checklines=10`, no transform) -/
def inspect (data : Input) (lookFor : List LookFor) (limit : Option Int) : Py InspectResult :=
  (data.run { checklines := 10 }).map (fun r => inspectFeatures lookFor limit r.2)

/-! ### the `directives` list object -/

/-- the two versions of `_custom_iter` L127 -/
inductive Variant
  /-- `self.directives = []` — a new list object on every pass (the tree as found; defect D1) -/
  | current
  /-- `del self.directives[:]` — the same object, emptied (the repair) -/
  | repaired
  deriving DecidableEq, Repr

/-- Python list objects by allocation number, and the object `iterator.directives` is bound to -/
structure DirStore where
  obj : Nat → List Str
  next : Nat
  cur : Nat

namespace DirStore

/-- `_BaseIterator.__init__` L66: `self.directives = []` -/
def init : DirStore := { obj := fun _ => [], next := 1, cur := 0 }

/-- L127, first statement of every `_custom_iter()` run -/
def startPass (v : Variant) (s : DirStore) : DirStore :=
  match v with
  | .current => { obj := fun i => if i = s.next then [] else s.obj i, next := s.next + 1, cur := s.next }
  | .repaired => { s with obj := fun i => if i = s.cur then [] else s.obj i }

/-- `_directive_handler`: `self.directives.append(directive[2:])` -/
def append (s : DirStore) (d : Str) : DirStore :=
  { s with obj := fun i => if i = s.cur then s.obj i ++ [d] else s.obj i }

end DirStore

/-- the loop of `_custom_iter` L130-149 as far as the directive list is concerned.  `budget = some k`:
the consumer stops pulling once it has received `k+1` features (the generator stays suspended at that
`yield`); `none`: the generator is run to its end. -/
def passLines : List Str → Option Nat → DirStore → DirStore
  | [], _, s => s
  | l :: rest, k, s =>
    match classify l with
    | .fastaStart => s
    | .directive d => passLines rest k (s.append d)
    | .skip => passLines rest k s
    | .feature =>
      match k with
      | some 0 => s
      | some (k + 1) => passLines rest (some k) s
      | none => passLines rest none s

/-- one run of `_custom_iter()` -/
def customIter (v : Variant) (lines : List Str) (budget : Option Nat) (s : DirStore) : DirStore :=
  passLines lines budget (s.startPass v)

/-- the store after `create_db` has imported a file: `(store, object captured by create_db)`.
`peeked = false` when a dialect is supplied (no peek; L79-80). -/
def createDbStore (v : Variant) (lines : List Str) (checklines : Nat) (peeked : Bool) : DirStore × Nat :=
  let s0 := DirStore.init
  -- `iterator = DataIterator(**kwargs)`: `__init__` peeks `checklines` (L84)
  let s1 := if peeked then customIter v lines (some checklines) s0 else s0
  -- `kwargs["directives"] = iterator.directives` (create.py L1375): the *object*
  let captured := s1.cur
  -- `c.create()` → `_populate_from_lines(self.iterator)`: one full pass
  let s2 := customIter v lines none s1
  (s2, captured)

/-- rows written by `_finalize` (`INSERT INTO directives` from the captured list) = `db.directives` -/
def createDbDirectives (v : Variant) (lines : List Str) (checklines : Nat) (peeked : Bool := true) : List Str :=
  let r := createDbStore v lines checklines peeked
  r.1.obj r.2

/-- `iterator.directives` once the import has finished -/
def iteratorDirectivesAfterImport (v : Variant) (lines : List Str) (checklines : Nat) (peeked : Bool := true) :
    List Str :=
  let r := createDbStore v lines checklines peeked
  r.1.obj r.1.cur

/-- `FeatureDB.__init__` L203-209: `SELECT directive FROM directives` (rowid order; `if directive` is
true for every one-column row) -/
def reopenDirectives (stored : List Str) : List Str := stored

end Iter
end GffModel
