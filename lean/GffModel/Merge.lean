/-
  GffModel.Merge — `FeatureDB.merge` (interface.py L1549-1705), `_finalize_merge` (L43-64) and the
  shipped criteria of `merge_criteria.py`, on plain feature lists (no database).

  The database instance enters only through `self._feature_returner` (its `dialect`, `keep_order`,
  `sort_attribute_values` defaults: `DbCfg`) and `self._autoincrements` (a `defaultdict(int)`:
  `Dict Nat`, a missing key reads 0).

  A Python `Feature` *object* as `merge` sees it is `MObj`: the feature plus the optional extra
  instance attribute `children` that `_finalize_merge` of an earlier call has put on it
  (`vars(obj)` then contains `children`, and `Feature(**vars)` raises `TypeError` — defect D9).
  The same type describes the yielded objects: a single has `children = some []` (Python `()`),
  a merged output `children = some kids` with two or more kids.

  `d9fixed` selects the repaired copy step (`current_merged.pop("children", None)`).

  Coordinates are `Option Int`; every ordering comparison or addition involving `None` is Python's
  `TypeError`, so the criteria are partial (`Py Bool`).

  `",".join(set(child.source ...))`: the order of a Python `set` of strings depends on the hash seed.
  The model fixes first-occurrence order; only the SET of the comma-separated parts is an observable
  (the harness compares it as a set).
-/
import GffModel.Feature

namespace GffModel
namespace Merge

/-- what `FeatureDB._feature_returner` adds to every feature it builds -/
structure DbCfg where
  dialect : Dialect := Dialect.default
  keepOrder : Bool := false
  sortVals : Bool := false
  /-- the D9 repair: drop `children` from `vars(current_merged)` before re-building -/
  d9fixed : Bool := false
  deriving Repr

/-- a `Feature` object together with the instance attribute `children` (absent = `none`) -/
structure MObj where
  f : Feature
  children : Option (List Feature) := none
  deriving Repr

/-- a merge criterion `callback(acc, cur, components) -> bool` -/
abbrev Crit := Feature → Feature → List Feature → Py Bool

/-! ### the shipped criteria (`merge_criteria.py`) -/

def seqid : Crit := fun acc cur _ => .ok (decide (cur.seqid = acc.seqid))
def strand : Crit := fun acc cur _ => .ok (decide (acc.strand = cur.strand))
def featureType : Crit := fun acc cur _ => .ok (decide (acc.ftype = cur.ftype))

/-- `cur.start == acc.start and cur.stop == acc.end` (`==` is total, also on `None`) -/
def exactCoordinatesOnly : Crit := fun acc cur _ =>
  .ok (decide (cur.start = acc.start) && decide (cur.stop = acc.stop))

/-- `acc.start <= cur.start <= acc.end + t` (chained: the right comparison, and `acc.end + t`, are
evaluated only when the left one is true) -/
def overlapEndThreshold (t : Int) : Crit := fun acc cur _ =>
  match acc.start, cur.start with
  | some as, some cs =>
    if as ≤ cs then
      match acc.stop with
      | some ae => .ok (decide (cs ≤ ae + t))
      | none => .error .type
    else .ok false
  | _, _ => .error .type

/-- `acc.start - t <= cur.end + 1 <= acc.end + 1` -/
def overlapStartThreshold (t : Int) : Crit := fun acc cur _ =>
  match acc.start, cur.stop with
  | some as, some ce =>
    if as - t ≤ ce + 1 then
      match acc.stop with
      | some ae => .ok (decide (ce + 1 ≤ ae + 1))
      | none => .error .type
    else .ok false
  | _, _ => .error .type

/-- Python `a or b` on partial booleans -/
def pyOr (a b : Py Bool) : Py Bool :=
  match a with
  | .error e => .error e
  | .ok true => .ok true
  | .ok false => b

def overlapEndInclusive : Crit := overlapEndThreshold 1
def overlapStartInclusive : Crit := overlapStartThreshold 0
/-- `end_inclusive or start_inclusive` -/
def overlapAnyInclusive : Crit := fun acc cur k =>
  pyOr (overlapEndInclusive acc cur k) (overlapStartInclusive acc cur k)
/-- `start_threshold(t) or end_threshold(t)` (this order) -/
def overlapAnyThreshold (t : Int) : Crit := fun acc cur k =>
  pyOr (overlapStartThreshold t acc cur k) (overlapEndThreshold t acc cur k)

/-- the default `merge_criteria` tuple -/
def defaultCriteria : List Crit := [seqid, overlapEndInclusive, strand, featureType]

/-- `all(criteria(acc, cur, components) for criteria in merge_criteria)`: left to right, stops at the
first `False`; an exception propagates from the point where it is raised -/
def allCrit : List Crit → Feature → Feature → List Feature → Py Bool
  | [], _, _, _ => .ok true
  | c :: cs, a, x, k =>
    match c a x k with
    | .error e => .error e
    | .ok false => .ok false
    | .ok true => allCrit cs a x k

/-! ### the loop -/

/-- loop state: `current_merged`, `feature_children`, `last_id`, `self._autoincrements` -/
structure St where
  cur : Option MObj := none
  kids : List Feature := []
  lastId : Option Str := none
  autoinc : Dict Nat := []
  deriving Repr

/-- `",".join(set(child.source for child in feature_children))` (first-occurrence order, see header) -/
def joinedSources (kids : List Feature) : Str := Str.join [','] (dedup (kids.map (·.source)))

/-- `_finalize_merge(feature, feature_children)` -/
def finalize (o : MObj) (kids : List Feature) : MObj :=
  if kids.length > 1 then { f := { o.f with source := joinedSources kids }, children := some kids }
  else { o with children := some [] }

/-- `vars(current_merged).copy()` minus `attributes, extra, dialect, keep_order, sort_attribute_values`
through `self._feature_returner(**…)`: keeps the eight columns, `bin` (recomputed only when `None`),
`id`, `file_order`; a `children` entry is an unexpected keyword (D9). -/
def copyForMerge (cfg : DbCfg) (o : MObj) : Py Feature :=
  if o.children.isSome && !cfg.d9fixed then .error .type
  else .ok { o.f with attrs := [], extra := [], dialect := cfg.dialect, keepOrder := cfg.keepOrder,
                      sortVals := cfg.sortVals,
                      bin := match o.f.bin with
                        | some b => some b
                        | none => Feature.calcBin o.f.start o.f.stop }

/-- Python `a < b` on coordinates -/
def ltI : Option Int → Option Int → Py Bool
  | some a, some b => .ok (decide (a < b))
  | _, _ => .error .type

/-- "Set mismatched properties to ambiguous values" and extend the extent (L1680-1696) -/
def absorb (m x : Feature) : Py Feature :=
  match ltI x.start m.start, ltI m.stop x.stop with
  | .ok lo, .ok hi =>
    .ok { m with
      seqid := if (Str.splitChar ',' m.seqid).contains x.seqid then m.seqid else m.seqid ++ [','] ++ x.seqid,
      strand := if x.strand ≠ m.strand then ['.'] else m.strand,
      frame := if x.frame ≠ m.frame then ['.'] else m.frame,
      ftype := if x.ftype ≠ m.ftype then "sequence_feature".toList else m.ftype,
      start := if lo then x.start else m.start,
      stop := if hi then x.stop else m.stop }
  | .error e, _ => .error e
  | _, .error e => .error e

/-- `not last_id` is true for `None` and for the empty string -/
def lastIdUnset : Option Str → Bool
  | none => true
  | some s => s.isEmpty

/-- the id `<featuretype>_<n>` -/
def mkId (ftype : Str) (n : Nat) : Str := ftype ++ ['_'] ++ Str.natToStr n

/-- first merge of a run (`len(feature_children) == 1`): copy, draw the id, set `ID` and `id` -/
def startRun (cfg : DbCfg) (c : MObj) (lastId : Option Str) (ai : Dict Nat) :
    Py (MObj × Option Str × Dict Nat) :=
  match copyForMerge cfg c with
  | .error e => .error e
  | .ok m =>
    let n := ((Dict.get? ai m.ftype).getD 0) + 1
    let lid : Str := if lastIdUnset lastId then mkId m.ftype n else lastId.getD []
    let ai' := if lastIdUnset lastId then Dict.set ai m.ftype n else ai
    .ok ({ f := { m with attrs := Dict.set m.attrs "ID".toList [lid], id := some lid }, children := none },
         some lid, ai')

/-- the part of the loop body after `current_merged` is known to be checked (`kids ≠ []`) -/
def stepMain (cfg : DbCfg) (cs : List Crit) (c : MObj) (kids : List Feature) (lastId : Option Str)
    (ai : Dict Nat) (x : MObj) : Py (St × List MObj) :=
  match allCrit cs c.f x.f kids with
  | .error e => .error e
  | .ok false => .ok ({ cur := some x, kids := [], lastId := none, autoinc := ai }, [finalize c kids])
  | .ok true =>
    match (if kids.length = 1 then startRun cfg c lastId ai else .ok (c, lastId, ai)) with
    | .error e => .error e
    | .ok (c', lastId', ai') =>
      match absorb c'.f x.f with
      | .error e => .error e
      | .ok m => .ok ({ cur := some { c' with f := m }, kids := kids ++ [x.f], lastId := lastId', autoinc := ai' }, [])

/-- one iteration of `for feature in features` : new state and the objects yielded -/
def step (cfg : DbCfg) (cs : List Crit) (st : St) (x : MObj) : Py (St × List MObj) :=
  match st.cur with
  | none =>
    -- first feature (or every earlier one failed its reflexive check): checked against itself
    match allCrit cs x.f x.f st.kids with
    | .error e => .error e
    | .ok true => .ok ({ st with cur := some x, kids := [x.f] }, [])
    | .ok false => .ok ({ st with lastId := none }, [finalize x []])
  | some c =>
    if st.kids.isEmpty then
      -- `current_merged` is the previous feature and still unchecked
      match allCrit cs c.f c.f st.kids with
      | .error e => .error e
      | .ok true => stepMain cfg cs c [c.f] st.lastId st.autoinc x
      | .ok false => .ok ({ st with cur := some x, lastId := none }, [finalize c []])
    else stepMain cfg cs c st.kids st.lastId st.autoinc x

def loop (cfg : DbCfg) (cs : List Crit) : St → List MObj → Py (St × List MObj)
  | st, [] => .ok (st, [])
  | st, x :: xs =>
    match step cfg cs st x with
    | .error e => .error e
    | .ok (st', ys) =>
      match loop cfg cs st' xs with
      | .error e => .error e
      | .ok (st'', zs) => .ok (st'', ys ++ zs)

/-- `if current_merged: yield _finalize_merge(current_merged, feature_children)`.  A `Feature` has
`__len__` and no `__bool__`, so its truth value is `len(feature) != 0`: a `None` coordinate is a
`TypeError`, a negative length a `ValueError`, and a feature with `end = start - 1` is falsy — it is
silently NOT yielded. -/
def finish (st : St) : Py (List MObj) :=
  match st.cur with
  | none => .ok []
  | some c =>
    match Feature.len c.f with
    | .error e => .error e
    | .ok n => if n < 0 then .error .value else if n = 0 then .ok [] else .ok [finalize c st.kids]

/-- `list(db.merge(features, merge_criteria))` together with `db._autoincrements` afterwards -/
def merge (cfg : DbCfg) (cs : List Crit) (ai : Dict Nat) (xs : List MObj) : Py (List MObj × Dict Nat) :=
  match loop cfg cs { autoinc := ai } xs with
  | .error e => .error e
  | .ok (st, ys) =>
    match finish st with
    | .error e => .error e
    | .ok zs => .ok (ys ++ zs, st.autoinc)

/-- the input features an output stands for: itself, or its children -/
def MObj.members (o : MObj) : List Feature :=
  match o.children with
  | some (k :: ks) => k :: ks
  | _ => [o.f]

/-- the input objects as the call leaves them: singles now carry `children = ()`, members of merged
outputs are untouched (objects assumed pairwise distinct and fresh before the call) -/
def inputsAfter (outs : List MObj) : List MObj :=
  outs.flatMap (fun o => match o.children with
    | some (k :: ks) => (k :: ks).map (fun f => { f := f, children := none })
    | _ => [o])

end Merge
end GffModel
