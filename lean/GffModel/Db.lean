/-
  GffModel.Db — the sqlite tables of `constants.SCHEMA` as lists, with exactly the sqlite behaviour
  gffutils relies on (DESIGN.md §2.2, §5: this meaning of sqlite is *modelled*, validated only by the
  correspondence):

  * `features`: PRIMARY KEY(id) → a second INSERT of an id is an `IntegrityError`; rows are kept in
    rowid order (rowid = max+1, so a new row always goes to the end; UPDATE keeps the position).
  * `relations`: PRIMARY KEY(parent, child, level); `INSERT OR IGNORE` drops a duplicate, a plain
    `INSERT` of a duplicate is an `IntegrityError`.
  * `autoincrements`: `INSERT OR REPLACE` per base.
-/
import GffModel.Iter

namespace GffModel

structure Row where
  id : Str
  seqid : Str
  source : Str
  ftype : Str
  start : Option Int
  stop : Option Int
  score : Str
  strand : Str
  frame : Str
  attrs : Attrs
  extra : List Str
  bin : Option Int
  deriving DecidableEq, Repr

structure Rel where
  parent : Str
  child : Str
  level : Int
  deriving DecidableEq, Repr

structure Db where
  features : List Row := []
  relations : List Rel := []
  metaRows : List Dialect := []        -- one row per `_finalize`; `FeatureDB.__init__` reads the first
  directives : List Str := []
  autoinc : Dict Nat := []           -- the `autoincrements` table
  duplicates : List (Str × Str) := []  -- (idspecid, newid)
  deriving Repr

namespace Db

def getRow? (db : Db) (id : Str) : Option Row := db.features.find? (·.id = id)

def hasId (db : Db) (id : Str) : Bool := db.features.any (·.id = id)

/-- `INSERT INTO features …` -/
def insert (db : Db) (r : Row) : Py Db :=
  if db.hasId r.id then .error .integrity else .ok { db with features := db.features ++ [r] }

/-- `UPDATE features SET … WHERE id = ?` (all columns; no effect when the id is absent) -/
def replaceRow (db : Db) (id : Str) (r : Row) : Db :=
  { db with features := db.features.map (fun x => if x.id = id then r else x) }

def modifyRow (db : Db) (id : Str) (f : Row → Row) : Db :=
  { db with features := db.features.map (fun x => if x.id = id then f x else x) }

def hasRel (db : Db) (r : Rel) : Bool := db.relations.contains r

/-- `INSERT OR IGNORE INTO relations` -/
def insertRelIgnore (db : Db) (r : Rel) : Db :=
  if db.hasRel r then db else { db with relations := db.relations ++ [r] }

/-- `INSERT INTO relations` -/
def insertRel (db : Db) (r : Rel) : Py Db :=
  if db.hasRel r then .error .integrity else .ok { db with relations := db.relations ++ [r] }

/-- `DELETE FROM features WHERE id = ?; DELETE FROM relations WHERE parent = ? OR child = ?` -/
def deleteId (db : Db) (id : Str) : Db :=
  { db with features := db.features.filter (·.id ≠ id),
            relations := db.relations.filter (fun r => r.parent ≠ id ∧ r.child ≠ id) }

end Db

/-- `Feature.astuple()`: the bin is recomputed from the coordinates (`self.calc_bin()`); a `set`
(the `bins` fall-through) cannot be bound by sqlite3 (`InterfaceError`, here `.other`). -/
def Row.ofFeature (f : Feature) : Py Row :=
  match f.id with
  | none => .error .other
  | some id =>
    match Feature.calcBin f.start f.stop with
    | some (.set _) => .error .other
    | b =>
      .ok { id := id, seqid := f.seqid, source := f.source, ftype := f.ftype, start := f.start, stop := f.stop,
            score := f.score, strand := f.strand, frame := f.frame, attrs := f.attrs, extra := f.extra,
            bin := match b with | some (.int i) => some i | _ => none }

/-- `Feature(dialect=…, **row)`: the stored bin is passed through -/
def Row.toFeature (r : Row) (d : Dialect) (keepOrder sortVals : Bool := false) : Feature :=
  { seqid := r.seqid, source := r.source, ftype := r.ftype, start := r.start, stop := r.stop, score := r.score,
    strand := r.strand, frame := r.frame, attrs := r.attrs, extra := r.extra,
    bin := r.bin.map (fun b => .int b), id := some r.id, dialect := d, keepOrder := keepOrder, sortVals := sortVals }

end GffModel
