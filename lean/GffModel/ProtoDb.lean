/-
  GffModel.ProtoDb — stateful protocol commands for the database layer: one open `Session` at a time.
-/
import GffModel.Proto
import GffModel.Interface
import GffModel.Export
import GffModel.DbExport

namespace GffModel
namespace ProtoDb
open Proto Interface Create

structure World where
  sess : Option Session := none

/-- the callable zoo of id_spec (mirrored in harness/dbside.py) -/
def callZoo : String → Option (Feature → Option Str)
  | "none" => some (fun _ => none)
  | "empty" => some (fun _ => some [])
  | "name" => some (fun f => match f.attrs.get? "Name".toList with | some (v :: _) => some v | _ => none)
  | "auto" => some (fun f => some ("autoincrement:".toList ++ f.ftype ++ "x".toList))
  | "autocolon" => some (fun f => some ("autoincrement:".toList ++ f.seqid ++ [':'] ++ f.ftype))
  | "autochr" => some (fun f => some ("autoincrement:".toList ++ f.seqid))
  | "const" => some (fun _ => some "fixed".toList)
  | "pos" => some (fun f => some (f.seqid ++ ['_'] ++ Feature.coordStr f.start))
  | _ => none

def decKeySpec? (w : String) : Option KeySpec :=
  match w.toList with
  | 'a' :: rest => (Str.decode? (String.ofList rest)).map KeySpec.attr
  | 'c' :: rest => (callZoo (String.ofList rest)).map KeySpec.call
  | _ => none

def decKeySpecs? (w : String) : Option (List KeySpec) :=
  if w = "_" then some [] else (w.splitOn ",").mapM decKeySpec?

/-- `default` | `L:<keyspecs>` | `D:<ft>=<keyspecs>;…` (`D:_` = empty dict) -/
def decIdSpec? (w : String) : Option (Option IdSpec) :=
  if w = "default" then some none
  else if w.startsWith "L:" then (decKeySpecs? ((w.drop 2).toString)).map (fun ks => some (.keys ks))
  else if w.startsWith "D:" then
    let body := (w.drop 2).toString
    if body = "_" then some (some (.perType []))
    else ((body.splitOn ";").mapM (fun (e : String) =>
      match e.splitOn "=" with
      | [ft, ks] => do pure ((← Str.decode? ft), (← decKeySpecs? ks))
      | _ => none)).map (fun m => some (.perType m))
  else none

def decStrategy? : String → Option Strategy
  | "error" => some .error | "warning" => some .warning | "replace" => some .replace
  | "create_unique" => some .createUnique | "merge" => some .merge | _ => none

structure CfgWire where
  idSpec : Option IdSpec
  strategy : Strategy
  force : List Str
  disG : Bool
  disT : Bool
  forceGff : Bool
  tkey : Str
  gkey : Str
  sub : Str
  transform : Option (Feature → Option Feature)
  keepOrder : Bool

/-- `<idspec> <strategy> <force-fields> <disG> <disT> <forceGff> <tkey> <gkey> <sub> <transform> <keep>` -/
def decCfg? : List String → Option CfgWire
  | [ids, st, ff, dg, dt, fg, tk, gk, sb, tr, ko] => do
    pure { idSpec := ← decIdSpec? ids, strategy := ← decStrategy? st, force := ← decList? ff,
           disG := ← parseBool dg, disT := ← parseBool dt, forceGff := ← parseBool fg,
           tkey := ← Str.decode? tk, gkey := ← Str.decode? gk, sub := ← Str.decode? sb,
           transform := ← transformOf tr, keepOrder := ← parseBool ko }
  | _ => none

def CfgWire.toCfg (c : CfgWire) (imp : Importer) (d : Dialect) : Cfg :=
  { idSpec := c.idSpec.getD (match imp with | .gff => defaultGffSpec | .gtf => defaultGtfSpec),
    strategy := c.strategy, forceMergeFields := c.force, disableGenes := c.disG, disableTranscripts := c.disT,
    transcriptKey := c.tkey, geneKey := c.gkey, subfeature := c.sub, dialect := d }

/-- `_DBCreator.__init__` argument check for the `merge` strategy -/
def forceFieldsOk (c : CfgWire) : Bool :=
  !(c.strategy == .merge && (c.force.contains "start".toList || c.force.contains "end".toList))

def encRow (r : Row) : String :=
  "!".intercalate [Str.encode r.id, Str.encode r.seqid, Str.encode r.source, Str.encode r.ftype, encOptInt r.start,
    encOptInt r.stop, Str.encode r.score, Str.encode r.strand, Str.encode r.frame, encAttrs r.attrs,
    encList r.extra, encOptInt r.bin]

def decOptInt? (w : String) : Option (Option Int) :=
  if w = "~" then some none else (parseIntW w).map some

def decRow? (w : String) : Option Row :=
  match w.splitOn "!" with
  | [id, sq, so, ft, st, en, sc, sd, fr, att, ex, bn] => do
    pure { id := ← Str.decode? id, seqid := ← Str.decode? sq, source := ← Str.decode? so, ftype := ← Str.decode? ft,
           start := ← decOptInt? st, stop := ← decOptInt? en, score := ← Str.decode? sc, strand := ← Str.decode? sd,
           frame := ← Str.decode? fr, attrs := ← decAttrs? att, extra := ← decList? ex, bin := ← decOptInt? bn }
  | _ => none

def encRel (r : Rel) : String := s!"{Str.encode r.parent}>{Str.encode r.child}>{r.level}"

def decRel? (w : String) : Option Rel :=
  match w.splitOn ">" with
  | [p, c, l] => do pure { parent := ← Str.decode? p, child := ← Str.decode? c, level := ← parseIntW l }
  | _ => none

def sortStrings (l : List String) : List String := (l.toArray.qsort (· < ·)).toList

def encAuto (a : Dict Nat) : String :=
  if a.isEmpty then "_" else ",".intercalate (sortStrings (a.map (fun (k, n) => s!"{Str.encode k}:{n}")))

def decAuto? (w : String) : Option (Dict Nat) :=
  if w = "_" then some [] else (w.splitOn ",").mapM (fun (e : String) =>
    match e.splitOn ":" with
    | [k, n] => do pure ((← Str.decode? k), (← (parseIntW n).map Int.toNat))
    | _ => none)

def encRows (rs : List Row) : String := if rs.isEmpty then "_" else "/".intercalate (rs.map encRow)
def encRels (rs : List Rel) : String :=
  if rs.isEmpty then "_" else "/".intercalate (sortStrings (rs.map encRel))

def splitNonEmpty (w : String) (sep : String) : List String := if w = "_" then [] else w.splitOn sep

/-- `dump`: features in file order, relations (sorted), directives, dialect, in-memory counters,
persistent counters -/
def dump (s : Session) : String :=
  s!"{encRows s.db.features} {encRels s.db.relations} {encList s.directives} {encDialect s.dialect} {encAuto s.auto} {encAuto s.db.autoinc}"

def encIds (rs : List Row) : String := encList (rs.map (·.id))

def decSortKey? : String → Option SortKey
  | "seqid" => some .seqid | "source" => some .source | "featuretype" => some .featuretype
  | "start" => some .start | "end" => some .stop | "score" => some .score | "strand" => some .strand
  | "frame" => some .frame | "file_order" => some .fileOrder | "length" => some .length | _ => none

def decStrOpt? (w : String) : Option (Option Str) := if w = "~" then some none else (Str.decode? w).map some

/-- `<ft-list|_> <strand|~> <limit: seqid,start,end | ~> <within> <order-keys ,-joined | _> <reverse>` -/
def decQuery? : List String → Option Query
  | [ft, st, lim, wi, ob, rev] => do
    let limit ← if lim = "~" then some none else
      match lim.splitOn "," with
      | [sq, a, b] => do pure (some ((← Str.decode? sq), (← parseIntW a), (← parseIntW b)))
      | _ => none
    let ob ← if ob = "_" then some [] else (ob.splitOn ",").mapM decSortKey?
    pure { featuretype := ← decList? ft, strand := ← decStrOpt? st, limit := limit, within := ← parseBool wi,
           orderBy := ob, reverse := ← parseBool rev }
  | _ => none

def runCreate (c : CfgWire) (checklines : Nat) (supplied : Option Dialect) (lines : List Str) : Py Session := do
  if !forceFieldsOk c then throw .value
  let (d, fs, dirs) ← Iter.runFile lines checklines supplied c.transform
  let imp ← route c.forceGff d
  let db ← createDb imp (c.toCfg imp d) dirs fs
  openDb db c.keepOrder

def withSess (w : World) (k : Session → World × String) : World × String :=
  match w.sess with
  | some s => k s
  | none => (w, "err NoSession")

/-- stateful commands; `none` = not a database command -/
def step (w : World) (ws : List String) : Option (World × String) :=
  match ws with
  | "create" :: cl :: d :: lines :: cfg => do
      let cl ← (parseIntW cl).map Int.toNat; let d ← decOptDialect? d
      let lines ← decList? lines; let c ← decCfg? cfg
      match runCreate c cl d lines with
      | .ok s => pure ({ sess := some s }, "ok " ++ encDialect s.dialect)
      | .error e => pure ({ sess := none }, encErr e)
  | ["load", rows, rels, dirs, dialect, auto, keep] => do
      let rows ← (splitNonEmpty rows "/").mapM decRow?
      let rels ← (splitNonEmpty rels "/").mapM decRel?
      let d ← decDialect? dialect; let a ← decAuto? auto
      let s : Session := { db := { features := rows, relations := rels, metaRows := [d], directives := ← decList? dirs,
                                   autoinc := a }, auto := a, dialect := d, directives := ← decList? dirs,
                           keepOrder := ← parseBool keep }
      pure ({ sess := some s }, "ok")
  | ["dump"] => some (withSess w (fun s => (w, "ok " ++ dump s)))
  | ["reopen"] => some (withSess w (fun s =>
      match openDb s.db s.keepOrder s.sortVals with
      | .ok s' => ({ sess := some s' }, "ok")
      | .error e => (w, encErr e)))
  | ["reopen", keep, sort] => do
      -- `FeatureDB(dbfn, keep_order=…, sort_attribute_values=…)` on the same database
      let keep ← parseBool keep; let sort ← parseBool sort
      pure (withSess w (fun s =>
        match openDb s.db keep sort with
        | .ok s' => ({ sess := some s' }, "ok")
        | .error e => (w, encErr e)))
  | ["get", id] => do
      let id ← Str.decode? id
      pure (withSess w (fun s => match getItem s id with
        | .ok f => (w, "ok " ++ encFeature f false)
        | .error e => (w, encErr e)))
  | "q" :: rest => do
      let q ← decQuery? rest
      pure (withSess w (fun s => (w, "ok " ++ encIds (runQuery s q))))
  | "rel" :: kind :: id :: level :: rest => do
      let isC ← match kind with | "children" => some true | "parents" => some false | _ => none
      let id ← Str.decode? id; let level ← decOptInt? level; let q ← decQuery? rest
      pure (withSess w (fun s => (w, "ok " ++ encIds (runRelation s isC id level q))))
  | ["region", sq, st, en, sd, ft, wi] => do
      let a : RegionArgs := { seqid := ← decStrOpt? sq, start := ← decOptInt? st, stop := ← decOptInt? en,
                              strand := ← decStrOpt? sd,
                              featuretype := ← (if ft = "~" then some none else (decList? ft).map some),
                              within := ← parseBool wi }
      pure (withSess w (fun s => match regionPy s a with
        | .ok rows => (w, "ok " ++ encIds rows)
        | .error e => (w, encErr e)))
  | ["count", ft] => do
      let ft ← decStrOpt? ft
      pure (withSess w (fun s => (w, s!"ok {countFeatures s ft}")))
  | ["ftypes"] => some (withSess w (fun s => (w, "ok " ++ encList (featuretypes s))))
  | ["seqids"] => some (withSess w (fun s => (w, "ok " ++ encList (seqids s))))
  | ["delete", ids] => do
      let ids ← decList? ids
      pure (withSess w (fun s => ({ sess := some (delete s ids) }, "ok")))
  | ["addrel", p, c, l] => do
      let p ← Str.decode? p; let c ← Str.decode? c; let l ← parseIntW l
      pure (withSess w (fun s => match addRelation s p c l with
        | .ok s' => ({ sess := some s' }, "ok")
        | .error e => (w, encErr e)))
  | "update" :: cl :: lines :: cfg => do
      let cl ← (parseIntW cl).map Int.toNat; let lines ← decList? lines; let c ← decCfg? cfg
      pure (withSess w (fun s =>
        if !forceFieldsOk c then (w, encErr .value) else
        match Iter.runFile lines cl none c.transform with
        | .error e => (w, encErr e)
        | .ok (d, fs, _) =>
          let imp := if s.dialect.fmt = Parser.gtf then Importer.gtf else Importer.gff
          match updateRaw s (c.toCfg imp d) (Iter.featureLines lines).isEmpty fs with
          | .ok s' => ({ sess := some s' }, "ok")
          | .error e => ({ sess := none }, encErr e)))
  | ["bed12", id, block, thick, thin, nf, color] => do
      let id ← Str.decode? id; let block ← decList? block; let thick ← decList? thick; let thin ← decList? thin
      let nf ← Str.decode? nf; let color ← decStrOpt? color
      pure (withSess w (fun s => match Export.bed12 s id block thick thin nf color with
        | .ok t => (w, "ok " ++ Str.encode t)
        | .error e => (w, encErr e)))
  | ["tobed12", id, ct, nf] => do
      let id ← Str.decode? id; let ct ← Str.decode? ct; let nf ← Str.decode? nf
      pure (withSess w (fun s => match Export.toBed12 s id ct nf with
        | .ok t => (w, "ok " ++ Str.encode t)
        | .error e => (w, encErr e)))
  | ["seq", fastaSeq, seqid, st, en, sd, us] => do
      let fs ← Str.decode? fastaSeq; let sq ← Str.decode? seqid; let st ← decOptInt? st; let en ← decOptInt? en
      let sd ← Str.decode? sd; let us ← parseBool us
      pure (w, match Export.sequence [(sq, fs)] sq st en sd us with
        | .ok t => "ok " ++ Str.encode t
        | .error e => encErr e)
  | ["introns", gp, pt, exonT, newT, ma, num] => do
      let gp ← decStrOpt? gp; let pt ← decStrOpt? pt; let exonT ← Str.decode? exonT; let newT ← Str.decode? newT
      let ma ← parseBool ma; let num ← parseBool num
      pure (withSess w (fun s => match DbExport.createIntrons s exonT gp pt newT ma num with
        | .ok fs => (w, s!"ok {fs.length} {encFeatures fs}")
        | .error e => (w, encErr e)))
  | ["splice", gp, pt, exonT, ma, num] => do
      let gp ← decStrOpt? gp; let pt ← decStrOpt? pt; let exonT ← Str.decode? exonT
      let ma ← parseBool ma; let num ← parseBool num
      pure (withSess w (fun s => match DbExport.createSpliceSites s exonT gp pt ma num with
        | .ok fs => (w, s!"ok {fs.length} {encFeatures fs}")
        | .error e => (w, encErr e)))
  | ["bp", id, ct, mg] => do
      let id ← Str.decode? id; let ct ← Str.decode? ct; let mg ← parseBool mg
      pure (withSess w (fun s => match DbExport.childrenBp s id ct mg Merge.defaultCriteria with
        | .ok (n, s') => ({ sess := some s' }, s!"ok {n}")
        | .error e => (w, encErr e)))
  | ["mergeall", ex] => do
      let ex ← parseBool ex
      pure (withSess w (fun s => match DbExport.mergeAll s Merge.defaultCriteria ex with
        | .ok (fs, s') => ({ sess := some s' }, "ok " ++ encList (fs.filterMap (·.id)))
        | .error e => (w, encErr e)))
  | _ => none

end ProtoDb
end GffModel
