/-
  GffModel.Feature — `feature.Feature` (`__init__` L148-205, `calc_bin`, `__unicode__` L258-288,
  `__len__`) and `feature.feature_from_line` (L397-452).
-/
import GffModel.Parser
import GffModel.Bins

namespace GffModel

structure Feature where
  seqid : Str := ['.']
  source : Str := ['.']
  ftype : Str := ['.']
  start : Option Int := none
  stop : Option Int := none
  score : Str := ['.']
  strand : Str := ['.']
  frame : Str := ['.']
  attrs : Attrs := []
  extra : List Str := []
  bin : Option Bins.BinResult := none
  id : Option Str := none
  dialect : Dialect := Dialect.default
  fileOrder : Option Nat := none
  keepOrder : Bool := false
  sortVals : Bool := false
  deriving Repr

namespace Feature

/-- coordinate normalisation of `Feature.__init__`: `"."`/`""` → `None`, otherwise `int(x)` -/
def parseCoord (s : Str) : Py (Option Int) :=
  if s = ['.'] ∨ s = [] then .ok none
  else match Str.parseInt? s with
    | some i => .ok (some i)
    | none => .error .value

/-- `calc_bin`: `bins.bins(start, end, one=True)`; a `TypeError` (comparison with `None`) gives `None`.
Python evaluates `start >= MAX or stop >= MAX` left to right, so a `start` at or beyond the limit
answers 1 even when `end` is `None`. -/
def calcBin (start stop : Option Int) : Option Bins.BinResult :=
  match start, stop with
  | some s, some e => some (Bins.bins s e .gff true)
  | some s, none => if s ≥ Bins.maxChrom then some (.int 1) else none
  | none, _ => none

/-- `Feature(...)` from the eight column strings plus parsed attributes -/
def mk' (cols : List Str) (attrs : Attrs) (extra : List Str) (dialect : Dialect) (keepOrder : Bool) :
    Py Feature := do
  let col (i : Nat) : Str := (cols[i]?).getD ['.']
  let start ← parseCoord (col 3)
  let stop ← parseCoord (col 4)
  pure { seqid := col 0, source := col 1, ftype := col 2, start := start, stop := stop, score := col 5,
         strand := col 6, frame := col 7, attrs := attrs, extra := extra, bin := calcBin start stop,
         dialect := dialect, keepOrder := keepOrder }

def coordStr : Option Int → Str
  | none => ['.']
  | some i => Str.intToStr i

/-- `str(feature)` -/
def print (f : Feature) (ignoreEsc : Bool := false) : Py Str := do
  let rec_ ← Parser.reconstruct f.attrs (some f.dialect) f.keepOrder f.sortVals ignoreEsc
  let items := [f.seqid, f.source, f.ftype, coordStr f.start, coordStr f.stop, f.score, f.strand, f.frame, rec_]
  let items := if f.extra.isEmpty then items else items ++ [Str.join ['\t'] f.extra]
  pure (Str.join ['\t'] items)

/-- `len(feature)`: `TypeError` when a coordinate is `None` -/
def len (f : Feature) : Py Int :=
  match f.start, f.stop with
  | some s, some e => .ok (e - s + 1)
  | _, _ => .error .type

end Feature

/-- `feature_from_line(line, dialect, strict, keep_order)` -/
def featureFromLine (line : Str) (dialect : Option Dialect) (strict keepOrder : Bool)
    (ignoreEsc : Bool := false) : Py Feature := do
  let fields ←
    if strict then pure (Str.splitChar '\t' (Str.rstripChars ['\n', '\r'] line))
    else do
      let ls := ((Str.splitLines line).map Str.strip).filter (fun l => !l.isEmpty)
      match ls with
      | [l] =>
        if l.contains '\t' then pure (Str.splitChar '\t' (Str.rstripChars ['\n', '\r'] l))
        else pure (Str.splitWs (some 8) (Str.rstripChars ['\n', '\r'] l))
      | _ => Except.error PyErr.assertion
  let attrString := (fields[8]?).getD []
  let (attrs, d') ← Parser.splitKeyvals attrString dialect ignoreEsc
  let extra := fields.drop 9
  let dialect := dialect.getD d'
  Feature.mk' (fields.take 8) attrs extra dialect keepOrder

end GffModel
