/-
  GffModel.Iter — `iterators.py`: line classification of `_FileIterator._custom_iter` (L126-149),
  the two `peek`s (L110-116, L203-213), dialect choice in `_BaseIterator.__init__` (L70-86), the common
  iteration path `__iter__` (L91-99), and `inspect.inspect`'s counting.

  A text input is the list of its lines (already `rstrip("\n\r")`-ed, as the code does first).
  A one-shot generator is a list that can only be consumed from the front.
-/
import GffModel.Helpers

namespace GffModel
namespace Iter

inductive LineKind
  | fastaStart
  | directive (s : Str)
  | skip
  | feature
  deriving DecidableEq, Repr

/-- the `if` chain of `_custom_iter`, in the order written -/
def classify (line : Str) : LineKind :=
  if line = "##FASTA".toList ∨ Str.startsWith line ['>'] then .fastaStart
  else if Str.startsWith line ['#', '#'] then .directive (line.drop 2)
  else if Str.startsWith line ['#'] ∨ line.isEmpty then .skip
  else .feature

/-- the lines `_custom_iter` looks at: everything before the first FASTA start (`return`) -/
def body (lines : List Str) : List Str := lines.takeWhile (fun l => classify l ≠ .fastaStart)

/-- `self.directives` after a complete pass -/
def directives (lines : List Str) : List Str :=
  (body lines).filterMap (fun l => match classify l with | .directive s => some s | _ => none)

/-- the lines handed to `feature_from_line` -/
def featureLines (lines : List Str) : List Str :=
  (body lines).filter (fun l => classify l = .feature)

/-- `self.directives` at the moment the `k`-th feature (0-based) has just been yielded: the
directives seen before it (`_custom_iter` is a generator; the list grows as it is consumed). -/
def directivesBeforeFeature (lines : List Str) (k : Nat) : List Str :=
  let rec go : List Str → Nat → List Str → List Str
    | [], _, acc => acc
    | l :: rest, k, acc =>
      match classify l with
      | .fastaStart => acc
      | .directive s => go rest k (acc ++ [s])
      | .skip => go rest k acc
      | .feature => if k = 0 then acc else go rest (k - 1) acc
  go lines k []

/-- what dialect choice sees of a feature -/
def view (f : Feature) : Dialect × List Str := (f.dialect, f.attrs.keys)

/-- `_FileIterator.peek(n)`: the first `n+1` features (`if i == n: break` comes after the append),
each parsed with the *inferring* parser (`self.dialect` is still `None`).  Re-opening the file means
nothing is consumed. -/
def filePeek (lines : List Str) (n : Nat) : Py (List Feature) :=
  ((featureLines lines).take (n + 1)).mapM (fun l => featureFromLine l none true false)

/-- `_FeatureIterator.peek(n)` on a one-shot source: `(peeked, data after re-chaining)` -/
def featPeek (src : List Feature) (n : Nat) : List Feature × List Feature :=
  let initial := src.take (n + 1)
  (initial, initial ++ src.drop (n + 1))

/-- dialect of a `_FileIterator` (`dialect=None`, no `force_dialect_check`) -/
def fileDialect (lines : List Str) (checklines : Nat) : Py Dialect :=
  (filePeek lines checklines).map (fun fs => Helpers.chooseDialect (fs.map view))

/-- dialect of a `_FeatureIterator` -/
def featDialect (src : List Feature) (checklines : Nat) : Dialect :=
  Helpers.chooseDialect ((featPeek src checklines).1.map view)

/-- the common `__iter__`: set the dialect, apply the transform once, drop falsy results -/
def applyTransform (d : Dialect) (transform : Option (Feature → Option Feature)) (fs : List Feature) :
    List Feature :=
  fs.filterMap (fun f0 =>
    let g : Feature := { f0 with dialect := d }
    match transform with
    | none => some g
    | some t => t g)

/-- full iteration of a file input with an already chosen dialect -/
def fileIterate (lines : List Str) (d : Dialect) (transform : Option (Feature → Option Feature)) :
    Py (List Feature) :=
  ((featureLines lines).mapM (fun l => featureFromLine l (some d) true false)).map (applyTransform d transform)

/-- `DataIterator(text, checklines, transform, dialect)` fully iterated: `(dialect, features, directives)` -/
def runFile (lines : List Str) (checklines : Nat) (supplied : Option Dialect)
    (transform : Option (Feature → Option Feature)) : Py (Dialect × List Feature × List Str) := do
  let d ← match supplied with
    | some d => pure d
    | none => fileDialect lines checklines
  let fs ← fileIterate lines d transform
  pure (d, fs, directives lines)

/-- `DataIterator(features, …)` fully iterated -/
def runFeatures (src : List Feature) (checklines : Nat) (supplied : Option Dialect)
    (transform : Option (Feature → Option Feature)) : Dialect × List Feature :=
  let d := match supplied with
    | some d => d
    | none => featDialect src checklines
  let data := match supplied with
    | some _ => src
    | none => (featPeek src checklines).2
  (d, applyTransform d transform data)

end Iter
end GffModel
