/-
  GffModel.Helpers — `helpers._choose_dialect` (L41-118), `helpers.infer_dialect`,
  `helpers.merge_attributes` (L363-418).
-/
import GffModel.Feature

namespace GffModel
namespace Helpers

/-- weighted tally in first-seen order: `count[k][v] = count[k].get(v, 0) + weight` -/
def tally {α : Type} [DecidableEq α] (obs : List (α × Nat)) : List (α × Nat) :=
  obs.foldl (fun acc (v, w) =>
    if acc.any (fun p => p.1 = v) then acc.map (fun p => if p.1 = v then (p.1, p.2 + w) else p)
    else acc ++ [(v, w)]) []

/-- `sorted(v.items(), key=lambda x: x[1], reverse=True)[0][0]`: the first-seen value among those of
maximal weight (Python's sort is stable, also under `reverse=True`). -/
def winner {α : Type} : List (α × Nat) → Option α
  | [] => none
  | (v, w) :: rest =>
    match winner rest with
    | none => some v
    | some v' =>
      -- weight of the best of `rest`
      let w' := (rest.foldl (fun m p => max m p.2) 0)
      if w ≥ w' then some v else some v'

def vote {α : Type} [DecidableEq α] (dflt : α) (obs : List (α × Nat)) : α :=
  (winner (tally obs)).getD dflt

/-- first-seen, duplicate-free concatenation of the features' attribute keys -/
def firstSeenOrder (keyLists : List (List Str)) : List Str := dedup keyLists.flatten

/-- `_choose_dialect(features)`; a feature is seen through `(dialect, attribute keys)`. -/
def chooseDialect (fs : List (Dialect × List Str)) : Dialect :=
  if fs.isEmpty then Dialect.default else
  let w (f : Dialect × List Str) : Nat := f.2.length
  let D := Dialect.default
  { leadingSemicolon := vote D.leadingSemicolon (fs.map (fun f => (f.1.leadingSemicolon, w f))),
    trailingSemicolon := vote D.trailingSemicolon (fs.map (fun f => (f.1.trailingSemicolon, w f))),
    quoted := vote D.quoted (fs.map (fun f => (f.1.quoted, w f))),
    fieldSep := vote D.fieldSep (fs.map (fun f => (f.1.fieldSep, w f))),
    kvSep := vote D.kvSep (fs.map (fun f => (f.1.kvSep, w f))),
    multiSep := vote D.multiSep (fs.map (fun f => (f.1.multiSep, w f))),
    fmt := vote D.fmt (fs.map (fun f => (f.1.fmt, w f))),
    repeatedKeys := vote D.repeatedKeys (fs.map (fun f => (f.1.repeatedKeys, w f))),
    order := firstSeenOrder (fs.map (·.2)) }

/-- `helpers.infer_dialect(attributes)` -/
def inferDialect (s : Str) : Py Dialect := (Parser.splitKeyvals s none).map (·.2)

end Helpers
end GffModel
